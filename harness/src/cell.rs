//! Synthetic robot cells (robot body, tool, base, environment, safety table) built both as the
//! library's KinematicsWithShape and as reference geometry for the brute-force oracle.

use crate::gen::*;
use crate::mesh::*;
use crate::refmodel::*;
use crate::rng::Rng;
use rs_opw_kinematics::collisions::{BaseBody, CheckMode, CollisionBody, RobotBody, SafetyDistances, NEVER_COLLIDES};
use rs_opw_kinematics::constraints::Constraints;
use rs_opw_kinematics::kinematic_traits::{Kinematics, ENV_START_IDX, J_BASE, J_TOOL};
use rs_opw_kinematics::kinematics_impl::OPWKinematics;
use rs_opw_kinematics::kinematics_with_shape::KinematicsWithShape;
use rs_opw_kinematics::tool::{Base, Tool};
use serde_json::{json, Value};
use std::collections::{BTreeMap, BTreeSet, HashMap};
use std::sync::Arc;

#[derive(Clone, Debug)]
pub struct SafetySpec {
    pub to_environment: f32,
    pub to_robot_default: f32,
    pub special: Vec<((usize, usize), f32)>,
    pub mode: CheckMode,
}

impl SafetySpec {
    pub fn touch(mode: CheckMode) -> SafetySpec {
        SafetySpec { to_environment: 0.0, to_robot_default: 0.0, special: vec![], mode }
    }
    pub fn build(&self) -> SafetyDistances {
        let mut m = HashMap::new();
        for ((a, b), v) in &self.special {
            m.insert((*a as u16, *b as u16), *v);
        }
        SafetyDistances { to_environment: self.to_environment, to_robot_default: self.to_robot_default, special_distances: m, mode: self.mode }
    }
    /// reference lookup: either key order, else environment / robot default
    pub fn lookup(&self, a: usize, b: usize) -> f32 {
        // later entries with the same key overwrite earlier ones in a HashMap; an (a,b) entry wins over (b,a)
        let mut direct = None;
        let mut swapped = None;
        for ((x, y), v) in &self.special {
            if *x == a && *y == b {
                direct = Some(*v);
            }
            if *x == b && *y == a {
                swapped = Some(*v);
            }
        }
        // the library looks up (from,to) first, then (to,from); when both orders are present with
        // different values the result depends on the call order, so generators never do that
        if let Some(v) = direct.or(swapped) {
            return v;
        }
        if a >= ENV_START_IDX || b >= ENV_START_IDX {
            self.to_environment
        } else {
            self.to_robot_default
        }
    }
    pub fn json(&self) -> Value {
        json!({"to_environment": self.to_environment, "to_robot_default": self.to_robot_default,
               "special": self.special.iter().map(|((a, b), v)| json!([a, b, v])).collect::<Vec<_>>(), "mode": format!("{:?}", self.mode)})
    }
    pub fn max_r(&self) -> f64 {
        let mut m = self.to_environment.max(self.to_robot_default);
        for (_, v) in &self.special {
            m = m.max(*v);
        }
        m.max(0.0) as f64
    }
}

#[derive(Clone)]
pub struct Cell {
    pub robot: Robot,
    pub links: [RMesh; 6],
    pub tool: Option<RMesh>,
    pub tool_tf: Fr,
    pub base: Option<RMesh>,
    pub base_tf: Fr,
    pub env: Vec<(RMesh, Fr)>,
    pub safety: SafetySpec,
    pub constraints: Constraints,
    pub scale: f64,
    /// fine = finely subdivided small bodies (triangle edges down to millimetres); coarse = every
    /// triangle edge >= 5 cm (the regime in which parry's triangle/triangle queries are reliable)
    pub fine: bool,
}

pub const COARSE_MIN_LEG: f64 = 0.05;

#[derive(Clone, Copy, Debug, PartialEq)]
pub enum Verdict {
    Colliding,
    Free,
    Ambiguous,
    Exempt,
}

#[derive(Clone, Copy, Debug)]
pub struct PairInfo {
    pub verdict: Verdict,
    pub dist: f64,
    pub r: f32,
    pub intersects: bool,
    /// shortest triangle edge of the two meshes
    pub min_leg: f64,
}

pub struct Oracle {
    pub pairs: BTreeMap<(usize, usize), PairInfo>,
}

impl Oracle {
    pub fn set(&self, v: Verdict) -> BTreeSet<(usize, usize)> {
        self.pairs.iter().filter(|(_, x)| x.verdict == v).map(|(k, _)| *k).collect()
    }
    pub fn any_ambiguous(&self) -> bool {
        self.pairs.values().any(|x| x.verdict == Verdict::Ambiguous)
    }
}

pub fn key(a: usize, b: usize) -> (usize, usize) {
    (a.min(b), a.max(b))
}

impl Cell {
    /// industrial-like geometry with box links that overlap at the joints
    pub fn generate(rng: &mut Rng, idx: u64, with_tool: bool, with_base: bool, fine: bool) -> Cell {
        let mut robot = gen_robot(rng, idx, RobotMode::Industrial, 0.0);
        {
            let p = &mut robot.rp;
            p.a1 = rng.range(0.05, 0.3);
            p.a2 = -rng.range(0.02, 0.15) * if rng.bool(0.8) { 1.0 } else { -1.0 };
            p.b = if rng.bool(0.5) { 0.0 } else { rng.range(-0.06, 0.06) };
            p.c1 = rng.range(0.3, 0.6);
            p.c2 = rng.range(0.4, 0.8);
            p.c3 = rng.range(0.4, 0.7);
            p.c4 = if fine { rng.range(0.08, 0.15) } else { rng.range(0.15, 0.25) };
        }
        let p = robot.rp;
        let t = if fine { rng.range(0.04, 0.08) } else { rng.range(0.05, 0.09) };
        // subdivision anti-correlated with size: small bodies get more vertices than big ones.
        // coarse cells: at most one subdivision and only where every triangle edge stays >= 5 cm
        let sub_small = |rng: &mut Rng| if fine { 2 + rng.usize(5) } else { 1 };
        let sub_big = |rng: &mut Rng| if fine { rng.usize(3) } else { 0 };
        let l1 = RMesh::boxm([p.a1 / 2.0 + t, p.b.abs() / 2.0 + t, 0.3 * p.c1 + t / 2.0], [p.a1 / 2.0, p.b / 2.0, -0.3 * p.c1 + t / 2.0], sub_big(rng));
        let l2 = RMesh::boxm([t, t, p.c2 / 2.0 + t], [0.0, 0.0, p.c2 / 2.0], sub_big(rng));
        let l3 = RMesh::boxm([p.a2.abs() / 2.0 + t, t, 0.225 * p.c3 + t / 2.0], [p.a2 / 2.0, 0.0, 0.225 * p.c3 - t / 2.0], if fine { 1 + rng.usize(3) } else { rng.usize(2) });
        let t4 = t * 0.8;
        let l4 = RMesh::boxm([t4, t4, 0.3 * p.c3], [0.0, 0.0, 0.68 * p.c3], if fine { 1 + rng.usize(3) } else { rng.usize(2) });
        let t5 = t * 0.7;
        let l5 = RMesh::boxm([t5, t5, (t5 + 0.6 * p.c4) / 2.0], [0.0, 0.0, (0.6 * p.c4 - t5) / 2.0], sub_small(rng));
        let t6 = t * 0.6;
        let l6 = RMesh::boxm([t6, t6, 0.2 * p.c4], [0.0, 0.0, -0.2 * p.c4], sub_small(rng));
        let tool_len = rng.range(0.1, 0.35);
        let tool_side = if rng.bool(0.3) { rng.range(0.02, 0.12) } else { 0.0 };
        let tw = if fine { 0.02 } else { 0.03 };
        let tool = if with_tool { Some(RMesh::boxm([tw + tool_side / 2.0, tw, tool_len / 2.0], [tool_side / 2.0, 0.0, tool_len / 2.0], sub_small(rng))) } else { None };
        let tool_tf = if with_tool { Fr { r: if rng.bool(0.5) { I3 } else { rotz(rng.range(-1.0, 1.0)) }, p: [tool_side, 0.0, tool_len] } } else { Fr::id() };
        let base_tf = if with_base {
            if rng.bool(0.5) { Fr { r: rotz(rng.range(-3.0, 3.0)), p: [rng.range(-0.5, 0.5), rng.range(-0.5, 0.5), rng.range(0.0, 0.8)] } } else { random_fr(rng, 0.5) }
        } else {
            Fr::id()
        };
        let base = if with_base { Some(RMesh::boxm([0.22, 0.22, 0.15 + 0.17 * p.c1], [0.0, 0.0, -0.15 + 0.17 * p.c1], sub_big(rng))) } else { None };
        let constraints = Constraints::new([-3.3; 6], [3.3; 6], 0.0);
        let cell = Cell { robot, links: [l1, l2, l3, l4, l5, l6], tool, tool_tf, base, base_tf, env: vec![], safety: SafetySpec::touch(CheckMode::AllCollsions), constraints, scale: p.reach(), fine };
        if !fine {
            debug_assert!(cell.links.iter().all(|m| m.min_leg >= COARSE_MIN_LEG - 1e-9), "coarse cell has a short triangle edge");
        }
        cell
    }

    pub fn link_frames(&self, q: &[f64; 6]) -> [Fr; 6] {
        let c = chain(&self.robot.rp, q);
        std::array::from_fn(|i| self.base_tf.mul(&c[i]))
    }

    pub fn kinematics(&self) -> Arc<dyn Kinematics> {
        let bare: Arc<dyn Kinematics> = Arc::new(OPWKinematics::new_with_constraints(to_params(&self.robot.rp), self.constraints));
        let with_base: Arc<dyn Kinematics> = if self.base.is_some() { Arc::new(Base { robot: bare, base: fr_to_iso(&self.base_tf) }) } else { bare };
        if self.tool.is_some() {
            Arc::new(Tool { robot: with_base, tool: fr_to_iso(&self.tool_tf) })
        } else {
            with_base
        }
    }

    pub fn body(&self) -> RobotBody {
        RobotBody {
            joint_meshes: std::array::from_fn(|i| self.links[i].to_trimesh()),
            tool: self.tool.as_ref().map(|t| t.to_trimesh()),
            base: self.base.as_ref().map(|b| BaseBody { mesh: b.to_trimesh(), base_pose: fr_to_iso(&self.base_tf).cast::<f32>() }),
            collision_environment: self.env.iter().map(|(m, f)| CollisionBody { mesh: m.to_trimesh(), pose: fr_to_iso(f).cast::<f32>() }).collect(),
            safety: self.safety.build(),
        }
    }

    pub fn build(&self) -> KinematicsWithShape {
        KinematicsWithShape { kinematics: self.kinematics(), body: self.body() }
    }

    pub fn band(&self) -> f64 {
        // fine meshes: parry's distance between small triangles is off by up to ~1e-4 m
        if self.fine { 5e-4 + 1e-5 * self.scale } else { 1e-4 + 1e-5 * self.scale }
    }

    pub fn mesh_of(&self, id: usize) -> &RMesh {
        if id < 6 {
            &self.links[id]
        } else if id == J_TOOL {
            self.tool.as_ref().unwrap()
        } else if id == J_BASE {
            self.base.as_ref().unwrap()
        } else {
            &self.env[id - ENV_START_IDX].0
        }
    }

    /// The relevant pair list of the property, with ids as the library reports them.
    pub fn relevant_pairs(&self) -> Vec<(usize, usize)> {
        let mut v = vec![];
        for i in 0..6 {
            for j in (i + 2)..6 {
                v.push((i, j));
            }
        }
        for k in 0..self.env.len() {
            for i in 0..6 {
                v.push((i, ENV_START_IDX + k));
            }
            if self.tool.is_some() {
                v.push((J_TOOL, ENV_START_IDX + k));
            }
        }
        if self.tool.is_some() {
            for i in 0..4 {
                v.push((i, J_TOOL));
            }
        }
        if self.base.is_some() {
            for i in 1..6 {
                v.push((i, J_BASE));
            }
        }
        if self.tool.is_some() && self.base.is_some() {
            v.push((J_TOOL, J_BASE));
        }
        v
    }

    pub fn place_all(&self, q: &[f64; 6]) -> BTreeMap<usize, Placed> {
        let fr = self.link_frames(q);
        let mut m = BTreeMap::new();
        for i in 0..6 {
            m.insert(i, self.links[i].placed(&fr[i]));
        }
        if let Some(t) = &self.tool {
            m.insert(J_TOOL, t.placed(&fr[5]));
        }
        if let Some(b) = &self.base {
            m.insert(J_BASE, b.placed(&self.base_tf));
        }
        for (k, (mesh, f)) in self.env.iter().enumerate() {
            m.insert(ENV_START_IDX + k, mesh.placed(f));
        }
        m
    }

    /// Brute-force oracle for one posture under the given safety table.
    pub fn oracle(&self, q: &[f64; 6], safety: &SafetySpec) -> Oracle {
        let placed = self.place_all(q);
        let band = self.band();
        let cutoff = safety.max_r() + 2.0 * band;
        let mut pairs = BTreeMap::new();
        for (a, b) in self.relevant_pairs() {
            let r = safety.lookup(a, b);
            if r <= NEVER_COLLIDES {
                pairs.insert(key(a, b), PairInfo { verdict: Verdict::Exempt, dist: f64::NAN, r, intersects: false, min_leg: 0.0 });
                continue;
            }
            let (pa, pb) = (&placed[&a], &placed[&b]);
            let res = mesh_mesh(pa, pb, cutoff);
            let v = if r == 0.0 {
                if res.intersects {
                    if res.pierce > band { Verdict::Colliding } else { Verdict::Ambiguous }
                } else if res.dist > band {
                    // one body wholly inside the other without surface contact: parry meshes are surfaces
                    let inside = pa.tris.first().map(|t| pb.contains_point(t.a, 0.0) == Some(true)).unwrap_or(false) || pb.tris.first().map(|t| pa.contains_point(t.a, 0.0) == Some(true)).unwrap_or(false);
                    if inside { Verdict::Ambiguous } else { Verdict::Free }
                } else {
                    Verdict::Ambiguous
                }
            } else {
                let r = r as f64;
                if res.dist < r - band {
                    Verdict::Colliding
                } else if res.dist > r + band {
                    Verdict::Free
                } else {
                    Verdict::Ambiguous
                }
            };
            let min_leg = self.mesh_of(a).min_leg.min(self.mesh_of(b).min_leg);
            pairs.insert(key(a, b), PairInfo { verdict: v, dist: res.dist, r: safety.lookup(a, b), intersects: res.intersects, min_leg });
        }
        Oracle { pairs }
    }

    /// Adds an environment box at a designed gap `d` (negative = overlap) from the box of body `target`
    /// (0..5 link, J_TOOL) in posture q. Returns the env index.
    pub fn add_designed_obstacle(&mut self, rng: &mut Rng, q: &[f64; 6], target: usize, d: f64) -> usize {
        self.add_designed_obstacle_at(rng, q, target, d, None)
    }

    /// The same with the face of the target box (axis, side) chosen by the caller instead of drawn.
    pub fn add_designed_obstacle_at(&mut self, rng: &mut Rng, q: &[f64; 6], target: usize, d: f64, face: Option<(usize, f64)>) -> usize {
        let fr = self.link_frames(q);
        let (mesh, f) = if target == J_TOOL { (self.tool.as_ref().unwrap(), fr[5]) } else { (&self.links[target], fr[target]) };
        let h = mesh.box_half.unwrap();
        let c = mesh.box_centre;
        let (k, s) = match face {
            Some(f) => f,
            None => {
                let k = rng.usize(3);
                (k, rng.sign())
            }
        };
        // vertex count anti-correlated with size
        let small = rng.bool(0.5);
        let (ho, n) = if self.fine {
            if small { ([rng.range(0.008, 0.02), rng.range(0.008, 0.02), rng.range(0.008, 0.02)], 3 + rng.usize(6)) } else { ([rng.range(0.05, 0.3), rng.range(0.05, 0.3), rng.range(0.02, 0.3)], rng.usize(2)) }
        } else if small {
            // small but coarse: 5..9 cm cubes with one subdivision (24 vertices, more than a big 8-vertex link)
            ([rng.range(0.025, 0.045), rng.range(0.025, 0.045), rng.range(0.025, 0.045)], 1)
        } else {
            ([rng.range(0.05, 0.3), rng.range(0.05, 0.3), rng.range(0.03, 0.3)], 0)
        };
        let mut centre = c;
        centre[k] += s * (h[k] + d + ho[k]);
        for o in 0..3 {
            if o != k {
                // lateral jitter keeps the obstacle in front of the face, so the gap along k is the distance
                let lim = (h[o] - ho[o]).max(0.0) * 0.8;
                centre[o] += rng.range(-1.0, 1.0) * lim;
            }
        }
        // a third of the obstacle meshes is modelled away from its own local origin (the pose compensates,
        // so the world placement is the designed one): the pose rotation then acts on a non-zero centre
        let o: [f64; 3] = if rng.bool(0.33) { [rng.range(-0.6, 0.6), rng.range(-0.6, 0.6), rng.range(-0.6, 0.6)] } else { [0.0; 3] };
        let pose = f.mul(&Fr::new(I3, sub(centre, o)));
        let near = RMesh::boxm(ho, o, n);
        // a fifth of the obstacles are meshes of two disconnected parts: a far part listed first, then
        // the designed near part (the far part is 4..6 m away along the link's k axis, outside the cell)
        if rng.bool(0.2) {
            let far = RMesh::boxm([0.05, 0.05, 0.05], [0.0; 3], if self.fine { 2 } else { 0 });
            let mut off = [0.0; 3];
            off[k] = -s * rng.range(4.0, 6.0);
            // far part first: shift the near part instead so that the far one sits at `off`
            self.env.push((RMesh::two_parts(&far, off, &near, [0.0; 3]), pose));
        } else {
            self.env.push((near, pose));
        }
        self.env.len() - 1
    }

    /// Replaces the base mesh by a box at a designed gap `d` (negative = overlap) from the box of body `target`
    /// (links 2..6 = indices 1..5, or J_TOOL) in posture q. The base body stays where it is (base_tf); its
    /// mesh is expressed in base coordinates, so the box is in general not aligned with the base axes.
    pub fn design_base(&mut self, rng: &mut Rng, q: &[f64; 6], target: usize, d: f64) {
        let c = chain(&self.robot.rp, q);
        let (mesh, f) = if target == J_TOOL { (self.tool.as_ref().unwrap(), c[5]) } else { (&self.links[target], c[target]) };
        let h = mesh.box_half.unwrap();
        let mut centre = mesh.box_centre;
        let k = rng.usize(3);
        let s = rng.sign();
        let ho = if self.fine { [rng.range(0.03, 0.2), rng.range(0.03, 0.2), rng.range(0.03, 0.2)] } else { [rng.range(0.06, 0.3), rng.range(0.06, 0.3), rng.range(0.06, 0.3)] };
        centre[k] += s * (h[k] + d + ho[k]);
        for o in 0..3 {
            if o != k {
                let lim = (h[o] - ho[o]).max(0.0) * 0.8;
                centre[o] += rng.range(-1.0, 1.0) * lim;
            }
        }
        let pose_in_base = f.mul(&Fr::new(I3, centre));
        self.base = Some(RMesh::boxm(ho, [0.0; 3], if self.fine { rng.usize(3) } else { 0 }).transformed(&pose_in_base));
    }

    /// Adds a floor / wall / ceiling: a flat plate that is exactly aligned with the world axes (its pose is a pure
    /// translation by f32-representable amounts), through or next to the box of link `target` in posture q.
    pub fn add_plate(&mut self, rng: &mut Rng, q: &[f64; 6], target: usize) -> usize {
        let fr = self.link_frames(q);
        let c = fr[target].apply(self.links[target].box_centre);
        let axis = rng.usize(3);
        let s = self.scale.max(0.3);
        let mut p = c;
        // half of the plates pass through the middle of the link, the others up to 0.3 reach beside it
        if rng.bool(0.5) {
            p[axis] += rng.range(-0.3, 0.3) * s;
        }
        for k in 0..3 {
            if k != axis {
                p[k] += rng.range(-0.2, 0.2) * s;
            }
            p[k] = (p[k] as f32) as f64;
        }
        let mesh = RMesh::plate(axis, rng.range(0.5, 1.5) * s, rng.range(0.5, 1.5) * s, if self.fine { 1 + rng.usize(4) } else { 1 });
        self.env.push((mesh, Fr::new(I3, p)));
        self.env.len() - 1
    }

    pub fn add_random_obstacle(&mut self, rng: &mut Rng) -> usize {
        let reach = self.scale;
        let ho = [rng.range(0.03, 0.3), rng.range(0.03, 0.3), rng.range(0.03, 0.3)];
        let p = [rng.range(-1.0, 1.0) * reach * 0.8, rng.range(-1.0, 1.0) * reach * 0.8, rng.range(-0.2, 1.0) * reach * 0.8];
        let o: [f64; 3] = if rng.bool(0.33) { [rng.range(-0.6, 0.6), rng.range(-0.6, 0.6), rng.range(-0.6, 0.6)] } else { [0.0; 3] };
        let pose = self.base_tf.mul(&Fr::new(random_rotation(rng), p)).mul(&Fr::new(I3, [-o[0], -o[1], -o[2]]));
        let n = if self.fine { rng.usize(4) } else { 0 };
        self.env.push((RMesh::boxm(ho, o, n), pose));
        self.env.len() - 1
    }

    pub fn random_safety(&self, rng: &mut Rng, mode: CheckMode) -> SafetySpec {
        let dist = |rng: &mut Rng| (rng.logu(0.004, 0.12) as f32 * 1000.0).round() / 1000.0;
        // (touch-only is written as +0.0 or as -0.0, e.g. the result of `-margin` with a zero margin)
        let zero = |rng: &mut Rng| if rng.bool(0.25) { -0.0f32 } else { 0.0f32 };
        let to_environment = if rng.bool(0.3) { zero(rng) } else { dist(rng) };
        let to_robot_default = match rng.usize(10) {
            0..=3 => zero(rng),
            4 => NEVER_COLLIDES,
            _ => {
                let mut d = dist(rng);
                if d == to_environment {
                    d += 0.003;
                }
                d
            }
        };
        let ids: Vec<usize> = {
            let mut v: Vec<usize> = (0..6).collect();
            v.push(J_TOOL);
            v.push(J_BASE);
            for k in 0..self.env.len() {
                v.push(ENV_START_IDX + k);
            }
            v
        };
        let mut special: Vec<((usize, usize), f32)> = vec![];
        for _ in 0..rng.usize(6) {
            let a = *rng.pick(&ids);
            let b = *rng.pick(&ids);
            if a == b || special.iter().any(|((x, y), _)| key(*x, *y) == key(a, b)) {
                continue;
            }
            let v = match rng.usize(4) {
                0 | 1 => NEVER_COLLIDES,
                2 => zero(rng),
                _ => dist(rng),
            };
            // both key orders occur
            special.push(((a, b), v));
        }
        // a seventh of the tables has no positive distance anywhere: touch-only defaults (zeros of either sign) and
        // overrides that are 0 or NEVER_COLLIDES only
        if rng.usize(7) == 0 {
            let special = special.into_iter().map(|(k, v)| (k, if v > 0.0 { NEVER_COLLIDES } else { v })).collect();
            return SafetySpec { to_environment: zero(rng), to_robot_default: zero(rng), special, mode };
        }
        SafetySpec { to_environment, to_robot_default, special, mode }
    }

    pub fn json(&self) -> Value {
        let mj = |m: &RMesh| json!({"half": m.box_half, "centre": m.box_centre, "vertices": m.verts.len(), "shortest_edge": m.min_leg, "two_disconnected_parts": m.box_half.is_none()});
        json!({
            "robot": crate::props::robot_json(&self.robot),
            "links": self.links.iter().map(mj).collect::<Vec<_>>(),
            "tool": self.tool.as_ref().map(mj), "tool_tf": {"r": self.tool_tf.r, "p": self.tool_tf.p},
            "base": self.base.as_ref().map(mj), "base_tf": {"r": self.base_tf.r, "p": self.base_tf.p},
            "env": self.env.iter().map(|(m, f)| json!({"mesh": mj(m), "pose": {"r": f.r, "p": f.p}})).collect::<Vec<_>>(),
            "safety": self.safety.json(),
            "mesh_regime": if self.fine { "fine" } else { "coarse" },
        })
    }
}

pub fn pairs_json(s: &BTreeSet<(usize, usize)>) -> Value {
    Value::Array(s.iter().map(|(a, b)| json!([a, b])).collect())
}
