//! Seeded generators and conversions between the reference model types and the library's types.

use crate::refmodel::*;
use crate::rng::Rng;
use nalgebra::{Isometry3, Quaternion, Translation3, Unit, UnitQuaternion};
use rs_opw_kinematics::constraints::Constraints;
use rs_opw_kinematics::parameters::opw_kinematics::Parameters;
use std::f64::consts::PI;

pub type Iso = Isometry3<f64>;

// ---------------------------------------------------------------- conversions

pub fn fr_to_iso(f: &Fr) -> Iso {
    let m = nalgebra::Matrix3::new(
        f.r[0][0], f.r[0][1], f.r[0][2], f.r[1][0], f.r[1][1], f.r[1][2], f.r[2][0], f.r[2][1], f.r[2][2],
    );
    let rot = nalgebra::Rotation3::from_matrix_unchecked(m);
    Iso::from_parts(Translation3::new(f.p[0], f.p[1], f.p[2]), UnitQuaternion::from_rotation_matrix(&rot))
}

/// own quaternion -> matrix formula (no nalgebra arithmetic involved)
pub fn iso_to_fr(i: &Iso) -> Fr {
    let q = i.rotation.quaternion();
    let (w, x, y, z) = (q.w, q.i, q.j, q.k);
    let n = (w * w + x * x + y * y + z * z).sqrt();
    let (w, x, y, z) = (w / n, x / n, y / n, z / n);
    Fr { r: quat_to_m(w, x, y, z), p: [i.translation.vector.x, i.translation.vector.y, i.translation.vector.z] }
}

pub fn quat_norm(i: &Iso) -> f64 {
    let q = i.rotation.quaternion();
    (q.w * q.w + q.i * q.i + q.j * q.j + q.k * q.k).sqrt()
}

pub fn to_params(r: &RParams) -> Parameters {
    Parameters {
        a1: r.a1,
        a2: r.a2,
        b: r.b,
        c1: r.c1,
        c2: r.c2,
        c3: r.c3,
        c4: r.c4,
        offsets: r.offsets,
        sign_corrections: r.signs,
        dof: r.dof,
    }
}
pub fn from_params(p: &Parameters) -> RParams {
    RParams { a1: p.a1, a2: p.a2, b: p.b, c1: p.c1, c2: p.c2, c3: p.c3, c4: p.c4, offsets: p.offsets, signs: p.sign_corrections, dof: p.dof }
}

// ---------------------------------------------------------------- robots

#[derive(Clone, Copy, Debug)]
pub struct Robot {
    pub rp: RParams,
    pub class: &'static str,
    pub sign_pattern: u8,
    pub offset_class: &'static str,
}

pub fn bundled(k: usize) -> (Parameters, &'static str) {
    match k % 11 {
        0 => (Parameters::irb2400_10(), "irb2400_10"),
        1 => (Parameters::staubli_tx40(), "staubli_tx40"),
        2 => (Parameters::kuka_kr6_r700_sixx(), "kuka_kr6_r700_sixx"),
        3 => (Parameters::igus_rebel(), "igus_rebel"),
        4 => (Parameters::staubli_tx2_140(), "staubli_tx2_140"),
        5 => (Parameters::staubli_tx2_160(), "staubli_tx2_160"),
        6 => (Parameters::staubli_tx2_160l(), "staubli_tx2_160l"),
        7 => (Parameters::fanuc_r2000ib_200r(), "fanuc_r2000ib_200r"),
        8 => (Parameters::staubli_rx160(), "staubli_rx160"),
        9 => (Parameters::irb2600_12_165(), "irb2600_12_165"),
        _ => (Parameters::irb4600_60_205(), "irb4600_60_205"),
    }
}

#[derive(Clone, Copy, PartialEq)]
pub enum RobotMode {
    /// all classes including degenerate geometries (soundness / no-panic clauses)
    All,
    /// non-degenerate only (c2 != 0, kappa != 0), negative lengths allowed
    NonDegenerate,
    /// "industrial" positive geometry only
    Industrial,
}

/// idx cycles the 64 sign patterns round-robin.
pub fn gen_robot(rng: &mut Rng, idx: u64, mode: RobotMode, dof5_prob: f64) -> Robot {
    let class_roll = rng.f();
    let (mut rp, class): (RParams, &'static str) = if mode == RobotMode::Industrial || class_roll < 0.40 {
        let b = if rng.bool(0.7) { rng.range(-0.2, 0.2) } else { 0.0 };
        (
            RParams {
                a1: rng.range(-0.3, 0.5),
                a2: rng.range(-0.3, 0.3),
                b,
                c1: rng.range(0.1, 1.0),
                c2: rng.range(0.2, 1.0),
                c3: rng.range(0.2, 1.0),
                c4: rng.range(0.02, 0.4),
                offsets: [0.0; 6],
                signs: [1; 6],
                dof: 6,
            },
            "industrial",
        )
    } else if class_roll < 0.55 {
        let (p, _n) = bundled(rng.usize(11));
        (from_params(&p), "bundled")
    } else if class_roll < 0.75 {
        // a third of these lengths is zero - or, one time in four, a calibration-sized residue below 10 micrometres
        let z = |rng: &mut Rng, v: f64| if rng.bool(1.0 / 3.0) { if rng.bool(0.25) { rng.sign() * rng.logu(1e-9, 1e-5) } else { 0.0 } } else { v };
        let a1 = rng.range(-0.3, 0.5);
        let a2 = rng.range(-0.3, 0.3);
        let b = rng.range(-0.2, 0.2);
        let c1 = rng.range(0.1, 1.0);
        let c4 = rng.range(0.02, 0.4);
        let a2 = z(rng, a2);
        (
            RParams {
                a1: z(rng, a1),
                a2,
                b: z(rng, b),
                c1: z(rng, c1),
                c2: rng.range(0.2, 1.0),
                // (a forearm modelled entirely by a2: c3 exactly zero, one time in eight when a2 is a real length)
                c3: if a2.abs() > 0.05 && rng.bool(0.125) { 0.0 } else { rng.range(0.2, 1.0) },
                c4: z(rng, c4),
                offsets: [0.0; 6],
                signs: [1; 6],
                dof: 6,
            },
            "zero_heavy",
        )
    } else if class_roll < 0.90 || mode == RobotMode::NonDegenerate {
        let s = |rng: &mut Rng, v: f64| if rng.bool(0.4) { -v } else { v };
        let c1 = rng.range(0.1, 1.0);
        let c2 = rng.range(0.2, 1.0);
        let c3 = rng.range(0.2, 1.0);
        let c4 = rng.range(0.02, 0.4);
        (
            RParams {
                a1: rng.range(-0.3, 0.5),
                a2: rng.range(-0.3, 0.3),
                b: rng.range(-0.2, 0.2),
                c1: s(rng, c1),
                c2: s(rng, c2),
                c3: s(rng, c3),
                c4: s(rng, c4),
                offsets: [0.0; 6],
                signs: [1; 6],
                dof: 6,
            },
            "negative_lengths",
        )
    } else {
        let k = rng.usize(6);
        let base = RParams {
            a1: rng.range(-0.3, 0.5),
            a2: rng.range(-0.3, 0.3),
            b: rng.range(-0.2, 0.2),
            c1: rng.range(0.1, 1.0),
            c2: rng.range(0.2, 1.0),
            c3: rng.range(0.2, 1.0),
            c4: rng.range(0.02, 0.4),
            offsets: [0.0; 6],
            signs: [1; 6],
            dof: 6,
        };
        let rp = match k {
            0 => RParams { c2: 0.0, ..base },
            1 => RParams { a2: 0.0, c3: 0.0, ..base },
            2 => RParams { a1: 0.0, a2: 0.0, b: 0.0, c1: 0.0, c2: 0.0, c3: 0.0, c4: 0.0, ..base },
            3 => RParams { a1: 1e-9, a2: 1e-9, b: 1e-9, c1: 1e-9, c2: 1e-9, c3: 1e-9, c4: 1e-9, ..base },
            4 => RParams { a1: 1e5, a2: 1e4, b: 1e3, c1: 1e6, c2: 1e6, c3: 1e6, c4: 1e5, ..base },
            _ => RParams { c2: base.c3, a2: 0.0, a1: 0.0, b: 0.0, ..base },
        };
        (rp, "degenerate")
    };
    // one robot in twenty-five is the same design at another scale: x25 .. x100 (a gantry-sized arm) or x0.01 .. x0.1
    let (mut rp, class) = (rp, class);
    if class != "degenerate" && rng.usize(25) == 0 {
        let k = if rng.bool(0.6) { rng.range(25.0, 100.0) } else { rng.logu(0.01, 0.1) };
        rp.a1 *= k;
        rp.a2 *= k;
        rp.b *= k;
        rp.c1 *= k;
        rp.c2 *= k;
        rp.c3 *= k;
        rp.c4 *= k;
    }
    // sign pattern: bundled robots keep their own convention half of the time
    let pattern = (idx % 64) as u8;
    let keep_own = class == "bundled" && rng.bool(0.5);
    if !keep_own {
        for j in 0..6 {
            rp.signs[j] = if (pattern >> j) & 1 == 1 { -1 } else { 1 };
        }
    }
    let offset_class: &'static str = if keep_own {
        "own"
    } else {
        match rng.usize(4) {
            0 => {
                rp.offsets = [0.0; 6];
                "none"
            }
            3 => {
                // offsets beyond half a turn (the model angle plus offset leaves [-3pi, 3pi])
                for j in 0..6 {
                    rp.offsets[j] = rng.range(-2.0 * PI, 2.0 * PI);
                }
                "large"
            }
            1 => {
                for j in 0..6 {
                    rp.offsets[j] = *rng.pick(&[0.0, 0.0, PI / 2.0, -PI / 2.0, PI, -PI]);
                }
                "right_angles"
            }
            _ => {
                for j in 0..6 {
                    rp.offsets[j] = rng.range(-PI, PI);
                }
                "uniform"
            }
        }
    };
    if rng.bool(dof5_prob) {
        rp.dof = 5;
        // (a parameter file with `dof: 5` blocks the sixth sign; a built-in set switched to dof 5 keeps it)
        if rng.bool(0.6) {
            rp.signs[5] = 0;
        }
    }
    Robot { rp, class, sign_pattern: if keep_own { 255 } else { pattern }, offset_class }
}

// ---------------------------------------------------------------- joints

pub fn joints_uniform(rng: &mut Rng, lim: f64) -> [f64; 6] {
    let mut q = [0.0; 6];
    for j in 0..6 {
        q[j] = rng.range(-lim, lim);
    }
    q
}

/// Joint vector in which individual joints rest at special values: exactly 0.0 / -0.0 (home position,
/// jogging a single axis), exact right angles, denormal or rounding-residue sized values; the other
/// joints are uniform in [-lim, lim].
pub fn joints_resting(rng: &mut Rng, lim: f64) -> [f64; 6] {
    let mut q = joints_uniform(rng, lim);
    for j in 0..6 {
        match rng.usize(20) {
            0..=4 => q[j] = 0.0,
            5 => q[j] = -0.0,
            6 => q[j] = *rng.pick(&[PI / 2.0, -PI / 2.0, PI, -PI]),
            7 => q[j] = rng.sign() * *rng.pick(&[5e-324, 1e-300, 1e-17, 1e-12]),
            // a microradian-sized value (encoder noise at the home position)
            8 => q[j] = rng.sign() * rng.logu(1e-8, 1e-5),
            _ => {}
        }
    }
    q
}

/// Joint vector with classes: 0 uniform [-pi,pi], 1 uniform [-2pi,2pi], 2 up to 1e3 turns, 3 up to 1e6 turns
pub fn joints_class(rng: &mut Rng, class: usize) -> [f64; 6] {
    match class {
        0 => joints_uniform(rng, PI),
        1 => joints_uniform(rng, 2.0 * PI),
        2 => joints_uniform(rng, 2.0 * PI * 1e3),
        _ => joints_uniform(rng, 2.0 * PI * 1e6),
    }
}

// ---------------------------------------------------------------- isometries

pub fn random_rotation(rng: &mut Rng) -> M3 {
    // random unit quaternion from 4 normals
    loop {
        let (w, x, y, z) = (rng.normal(), rng.normal(), rng.normal(), rng.normal());
        let n = (w * w + x * x + y * y + z * z).sqrt();
        if n > 1e-6 {
            return quat_to_m(w / n, x / n, y / n, z / n);
        }
    }
}

pub fn random_fr(rng: &mut Rng, tscale: f64) -> Fr {
    Fr { r: random_rotation(rng), p: [rng.range(-tscale, tscale), rng.range(-tscale, tscale), rng.range(-tscale, tscale)] }
}

/// translation along z, rotation about z
pub fn axial_fr(rng: &mut Rng, tscale: f64) -> Fr {
    Fr { r: rotz(rng.range(-PI, PI)), p: [0.0, 0.0, rng.range(-tscale, tscale)] }
}

pub fn iso_unchecked(w: f64, i: f64, j: f64, k: f64, x: f64, y: f64, z: f64) -> Iso {
    Iso::from_parts(Translation3::new(x, y, z), Unit::new_unchecked(Quaternion::new(w, i, j, k)))
}

// ---------------------------------------------------------------- constraints

/// Per-joint (from,to) of class k. `around` is a solution angle for that joint to centre windows on.
pub fn limit_pair(rng: &mut Rng, class: usize, around: f64) -> (f64, f64) {
    match class {
        // narrow window around the value
        0 => {
            let w = rng.range(0.01, 0.5);
            (around - rng.range(0.0, w), around + rng.range(0.0, w))
        }
        // wide non wrapping
        1 => {
            let a = rng.range(-PI, 0.0);
            let b = rng.range(0.0, PI);
            (a, b)
        }
        // wrapping, straddling zero: from > 0 > to
        2 => (rng.range(0.1, PI), rng.range(-PI, -0.1)),
        // wrapping both positive: from > to > 0
        3 => {
            let to = rng.range(0.05, 2.0);
            (to + rng.range(0.1, 3.0), to)
        }
        // wrapping both negative
        4 => {
            let from = rng.range(-2.0, -0.05);
            (from, from - rng.range(0.1, 3.0))
        }
        // from == to (unconstrained); zeros of either sign compare equal and mean the same
        5 => match rng.usize(6) {
            0 => (0.0, 0.0),
            1 => (-0.0, 0.0),
            2 => (0.0, -0.0),
            3 => (-0.0, -0.0),
            _ => {
                let v = rng.range(-PI, PI);
                (v, v)
            }
        },
        // wrap-around range written with both limits in (pi, 2pi): only a short arc below `from` is forbidden, and
        // the centre the library derives lies between 2pi and 3pi
        9 => {
            let from = rng.range(PI + 0.2, 2.0 * PI - 0.1);
            let to = (from - rng.range(0.3, 2.5)).max(0.3);
            (from, to)
        }
        // almost the whole turn is allowed: a forbidden gap of half-width 3e-9 .. 1e-3 rad centred on the value
        // (written as a plain range of nearly 2pi, or as the equivalent wrap-around range)
        11 => {
            let g = rng.logu(3e-9, 1e-3);
            if rng.bool(0.5) { (around + g, around - g + 2.0 * PI) } else { (around + g, around - g) }
        }
        // a continuous joint declared with infinite bounds (both, or one side only): a span of more than a turn
        12 => match rng.usize(3) {
            0 => (f64::NEG_INFINITY, f64::INFINITY),
            1 => (f64::NEG_INFINITY, rng.range(-PI, PI)),
            _ => (rng.range(-PI, PI), f64::INFINITY),
        },
        // a joint all but locked (window of 1e-6 .. 1e-3 rad) with the value a hair OUTSIDE it (2e-9 .. 1e-5 rad)
        10 => {
            let w = rng.logu(1e-6, 1e-3);
            let d = rng.logu(2e-9, 1e-5);
            if rng.bool(0.5) { (around + d, around + d + w) } else { (around - d - w, around - d) }
        }
        // arc of positive but tiny width (a few ulps .. a nanoradian), placed at the value or elsewhere
        8 => {
            let w = if rng.bool(0.3) { rng.int(1, 8) as f64 * f64::EPSILON * 4.0 } else { rng.logu(1e-15, 1e-9) };
            let f = if rng.bool(0.5) { around - w * rng.f() } else { rng.range(-PI, PI) };
            let t = f + w;
            if t > f { (f, t) } else { (f, f + 1e-9) }
        }
        // span >= 2pi
        6 => {
            let a = rng.range(-2.0 * PI, 0.0);
            (a, a + rng.range(2.0 * PI, 3.0 * PI))
        }
        // limits far out up to +-4pi
        _ => {
            let a = rng.range(-4.0 * PI, 4.0 * PI);
            let b = rng.range(-4.0 * PI, 4.0 * PI);
            (a, b)
        }
    }
}

pub fn weight(rng: &mut Rng) -> f64 {
    match rng.usize(4) {
        0 => 0.0,
        1 => 1.0,
        _ => rng.f(),
    }
}

pub fn constraints_new(from: [f64; 6], to: [f64; 6], w: f64) -> Constraints {
    Constraints::new(from, to, w)
}

/// Limits set through `update_range` on an existing constraint set whose earlier limits relate to the
/// new ones joint by joint in a random way: unrelated range, only `from` changes, only `to` changes,
/// earlier from == to (unconstrained), or no change at all. The result must behave exactly like a
/// freshly constructed set; the earlier state may not show through.
pub fn via_update_range(rng: &mut Rng, from: [f64; 6], to: [f64; 6], w: f64) -> Constraints {
    let (mut f0, mut t0) = (from, to);
    for j in 0..6 {
        match rng.usize(6) {
            0 => {
                f0[j] = rng.range(-4.0, 4.0);
                t0[j] = rng.range(-4.0, 4.0);
            }
            1 => f0[j] = from[j] + rng.sign() * rng.range(0.1, 3.0),
            2 => t0[j] = to[j] + rng.sign() * rng.range(0.1, 3.0),
            3 => {
                let v = rng.range(-3.0, 3.0);
                f0[j] = v;
                t0[j] = v;
            }
            4 => {
                f0[j] = 0.0;
                t0[j] = 1.0;
            }
            _ => {}
        }
    }
    let mut c = Constraints::new(f0, t0, w);
    if rng.bool(0.3) {
        // an intermediate update on the way
        let mid_f: [f64; 6] = std::array::from_fn(|j| if rng.bool(0.5) { from[j] } else { rng.range(-4.0, 4.0) });
        let mid_t: [f64; 6] = std::array::from_fn(|j| if rng.bool(0.5) { to[j] } else { rng.range(-4.0, 4.0) });
        c.update_range(mid_f, mid_t);
    }
    c.update_range(from, to);
    c
}

/// The solver for a parameter set, built through either constructor: `new`, or `new_with_constraints`
/// with limits that exclude nothing (from == to on every joint, or spans of more than a turn). Both must
/// behave identically.
pub fn make_solver(rng: &mut Rng, rp: &RParams) -> rs_opw_kinematics::kinematics_impl::OPWKinematics {
    use rs_opw_kinematics::kinematics_impl::OPWKinematics;
    match rng.usize(10) {
        0 | 1 => OPWKinematics::new_with_constraints(to_params(rp), Constraints::new([0.0; 6], [0.0; 6], 0.0)),
        2 => OPWKinematics::new_with_constraints(to_params(rp), Constraints::new([-7.0; 6], [7.0; 6], 0.0)),
        _ => OPWKinematics::new(to_params(rp)),
    }
}
