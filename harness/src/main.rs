//! opwmon: runtime monitors for rs-opw-kinematics. `opwmon check <ID> <quick|thorough>`,
//! `opwmon replay <file>`.

mod gen;
mod props;
mod refmodel;
mod report;
mod rng;
mod mesh;
mod cell;
mod spy;

use report::{Mon, RunInfo};
use rng::Rng;
use serde_json::{Map, Value};
use std::sync::atomic::{AtomicU64, Ordering};
use std::sync::Mutex;
use std::time::Instant;

#[derive(Clone, Copy, PartialEq, Debug)]
pub enum Tier {
    Quick,
    Thorough,
}

pub struct Kind {
    pub name: &'static str,
    pub quick: u64,
    pub thorough: u64,
    /// cases of this kind must run one at a time (they use their own thread pools / global sink)
    pub serial: bool,
}

pub struct Spec {
    pub kinds: Vec<Kind>,
    pub rule: &'static str,
    pub assumptions: Vec<&'static str>,
    pub minimums: Vec<(&'static str, u64, u64)>, // counter, min quick, min thorough
}

pub struct Prop {
    pub id: &'static str,
    pub spec: fn() -> Spec,
    pub run_case: fn(kind: &str, idx: u64, rng: &mut Rng, mon: &mut Mon, tier: Tier),
    /// optional whole-run step executed once after all cases (e.g. exhaustive lattice, TSan child)
    pub finalize: Option<fn(mon: &mut Mon, tier: Tier, seed: u64, extra: &mut Map<String, Value>)>,
}

fn run_kind(p: &Prop, k: &Kind, n: u64, seed: u64, tier: Tier, only: Option<u64>) -> Mon {
    let next = AtomicU64::new(0);
    let total = Mutex::new(Mon::new());
    let threads = if k.serial { 1 } else { std::thread::available_parallelism().map(|x| x.get()).unwrap_or(8).min(16) };
    let chunk = (n / (threads as u64 * 8)).max(1);
    std::thread::scope(|s| {
        for _ in 0..threads {
            s.spawn(|| {
                let mut mon = Mon::new();
                loop {
                    let start = next.fetch_add(chunk, Ordering::Relaxed);
                    if start >= n {
                        break;
                    }
                    for idx in start..(start + chunk).min(n) {
                        if let Some(o) = only {
                            if o != idx {
                                continue;
                            }
                        }
                        let mut rng = Rng::for_case(seed, p.id, k.name, idx);
                        mon.cur_kind = k.name.to_string();
                        mon.cur_idx = idx;
                        mon.evaluations += 1;
                        mon.count(&format!("cases.{}", k.name));
                        // a panic that escapes the monitor's own guarded sections is recorded with its
                        // location (library file:line or harness file:line) instead of killing the run
                        let r = std::panic::catch_unwind(std::panic::AssertUnwindSafe(|| (p.run_case)(k.name, idx, &mut rng, &mut mon, tier)));
                        if r.is_err() {
                            let msg = report::LAST_PANIC.with(|p| p.borrow_mut().take()).unwrap_or_else(|| "panic".into());
                            let at = msg.rsplit(" @ ").next().unwrap_or("?").to_string();
                            mon.violation(&format!("panic-outside-guarded-section:{}", at), "a call panicked where the monitor did not expect a panic", serde_json::json!({"panic": msg}));
                        }
                    }
                }
                total.lock().unwrap().merge(mon);
            });
        }
    });
    total.into_inner().unwrap()
}

fn check(id: &str, tier: Tier, seed: u64) -> i32 {
    let p = match props::registry().into_iter().find(|p| p.id == id) {
        Some(p) => p,
        None => {
            eprintln!("unknown property {}", id);
            return 2;
        }
    };
    report::redirect_stdout(id);
    report::install_silent_panic_hook();
    // generous wall-clock watchdog: a hang is inconclusive (exit 2), never a verdict
    let limit_s: u64 = if tier == Tier::Quick { 1500 } else { 6 * 3600 };
    let idc = id.to_string();
    std::thread::spawn(move || {
        std::thread::sleep(std::time::Duration::from_secs(limit_s));
        report::out(&format!("HARNESS-ERROR property={} watchdog fired after {} s (inconclusive)", idc, limit_s));
        std::process::exit(2);
    });
    let started = Instant::now();
    let spec = (p.spec)();
    let mut mon = Mon::new();
    let scale: f64 = std::env::var("VERIF_SCALE").ok().and_then(|s| s.parse().ok()).unwrap_or(1.0);
    for k in &spec.kinds {
        let n = if tier == Tier::Quick { k.quick } else { k.thorough };
        let n = ((n as f64) * scale).ceil() as u64;
        if n == 0 {
            continue;
        }
        let m = run_kind(&p, k, n, seed, tier, None);
        mon.merge(m);
    }
    let mut extra = Map::new();
    if let Some(f) = p.finalize {
        f(&mut mon, tier, seed, &mut extra);
    }
    let info = RunInfo {
        property: id.to_string(),
        tier: if tier == Tier::Quick { "quick".into() } else { "thorough".into() },
        seed,
        rule: spec.rule.to_string(),
        assumptions: spec.assumptions.iter().map(|s| s.to_string()).collect(),
        wall_s: started.elapsed().as_secs_f64(),
        minimums: spec
            .minimums
            .iter()
            .map(|(n, q, t)| (n.to_string(), ((if tier == Tier::Quick { *q } else { *t }) as f64 * scale.min(1.0)) as u64))
            .collect(),
        extra,
    };
    report::finish(&info, &mon)
}

fn replay(path: &str) -> i32 {
    let s = match std::fs::read_to_string(path) {
        Ok(s) => s,
        Err(e) => {
            eprintln!("cannot read {}: {}", path, e);
            return 2;
        }
    };
    let v: Value = serde_json::from_str(&s).expect("replay file is not JSON");
    let id = v["property"].as_str().unwrap_or("").to_string();
    let kind = v["kind"].as_str().unwrap_or("").to_string();
    let idx = v["idx"].as_u64().unwrap_or(0);
    let seed = v["seed"].as_u64().unwrap_or(1);
    let tier = if v["tier"].as_str() == Some("thorough") { Tier::Thorough } else { Tier::Quick };
    let p = match props::registry().into_iter().find(|p| p.id == id) {
        Some(p) => p,
        None => {
            eprintln!("unknown property {}", id);
            return 2;
        }
    };
    report::redirect_stdout(&format!("{}-replay", id));
    report::install_silent_panic_hook();
    let mut mon = Mon::new();
    if kind == "finalize" {
        let mut extra = Map::new();
        if let Some(f) = p.finalize {
            f(&mut mon, tier, seed, &mut extra);
        }
    } else {
        let mut rng = Rng::for_case(seed, p.id, &kind, idx);
        mon.cur_kind = kind.clone();
        mon.cur_idx = idx;
        (p.run_case)(&kind, idx, &mut rng, &mut mon, tier);
    }
    report::out(&format!("REPLAY property={} kind={} idx={} seed={} -> {} violating evaluation(s)", id, kind, idx, seed, mon.violations.len()));
    for v in mon.violations.iter().take(5) {
        report::out(&format!("  {} : {}", v.signature, v.what));
        report::out(&format!("  {}", serde_json::to_string(&v.detail).unwrap_or_default()));
    }
    if mon.violations.is_empty() {
        0
    } else {
        1
    }
}

fn main() {
    let args: Vec<String> = std::env::args().collect();
    let seed: u64 = std::env::var("VERIF_SEED").ok().and_then(|s| s.parse::<i64>().ok()).map(|x| x as u64).unwrap_or(1);
    let code = match args.get(1).map(|s| s.as_str()) {
        Some("check") => {
            let id = args.get(2).expect("property id");
            let tier = match args.get(3).map(|s| s.as_str()) {
                Some("thorough") => Tier::Thorough,
                _ => Tier::Quick,
            };
            check(id, tier, seed)
        }
        Some("replay") => replay(args.get(2).expect("replay file")),
        Some("child") => props::child(&args[2..]),
        _ => {
            eprintln!("usage: opwmon check <ID> <quick|thorough> | replay <file>");
            2
        }
    };
    std::process::exit(code);
}
