//! Synthetic meshes and a brute-force (no BVH, no parry) triangle/triangle distance oracle in f64.

use crate::refmodel::*;
use parry3d::math::Point;
use parry3d::shape::TriMesh;

#[derive(Clone, Debug)]
pub struct RMesh {
    /// vertices, exactly representable in f32 (they are what the library's TriMesh holds)
    pub verts: Vec<V3>,
    pub tris: Vec<[u32; 3]>,
    /// for synthetic boxes: half extents and centre (local frame), used for containment tests
    pub box_half: Option<V3>,
    pub box_centre: V3,
    /// shortest triangle edge of the mesh
    pub min_leg: f64,
}

fn min_leg_of(verts: &[V3], tris: &[[u32; 3]]) -> f64 {
    let mut m = f64::INFINITY;
    for t in tris {
        for k in 0..3 {
            let a = verts[t[k] as usize];
            let b = verts[t[(k + 1) % 3] as usize];
            m = m.min(norm(sub(a, b)));
        }
    }
    m
}

fn f32r(x: f64) -> f64 {
    (x as f32) as f64
}

impl RMesh {
    /// Axis-aligned box in the local frame with every face subdivided n x n (n >= 1).
    /// Vertex count 6*(n+1)^2 (face vertices are not shared), 12*n^2 triangles. n = 0: shared 8-vertex box.
    pub fn boxm(half: V3, centre: V3, n: usize) -> RMesh {
        let mut verts: Vec<V3> = vec![];
        let mut tris: Vec<[u32; 3]> = vec![];
        if n == 0 {
            for k in 0..8 {
                let s = [if k & 1 == 0 { -1.0 } else { 1.0 }, if k & 2 == 0 { -1.0 } else { 1.0 }, if k & 4 == 0 { -1.0 } else { 1.0 }];
                verts.push([f32r(centre[0] + s[0] * half[0]), f32r(centre[1] + s[1] * half[1]), f32r(centre[2] + s[2] * half[2])]);
            }
            tris = vec![[0, 1, 2], [2, 1, 3], [4, 5, 6], [6, 5, 7], [2, 3, 6], [6, 3, 7], [0, 1, 4], [4, 1, 5], [0, 2, 4], [4, 2, 6], [1, 3, 5], [5, 3, 7]];
        } else {
            for axis in 0..3 {
                for side in [-1.0, 1.0] {
                    let (u, v) = ((axis + 1) % 3, (axis + 2) % 3);
                    let base = verts.len() as u32;
                    for i in 0..=n {
                        for j in 0..=n {
                            let mut p = [0.0; 3];
                            p[axis] = centre[axis] + side * half[axis];
                            p[u] = centre[u] - half[u] + 2.0 * half[u] * i as f64 / n as f64;
                            p[v] = centre[v] - half[v] + 2.0 * half[v] * j as f64 / n as f64;
                            verts.push([f32r(p[0]), f32r(p[1]), f32r(p[2])]);
                        }
                    }
                    let w = (n + 1) as u32;
                    for i in 0..n as u32 {
                        for j in 0..n as u32 {
                            let a = base + i * w + j;
                            tris.push([a, a + 1, a + w]);
                            tris.push([a + w, a + 1, a + w + 1]);
                        }
                    }
                }
            }
        }
        let min_leg = min_leg_of(&verts, &tris);
        RMesh { verts, tris, box_half: Some(half), box_centre: centre, min_leg }
    }

    /// Flat rectangular plate in the local plane `axis` = 0 (zero thickness, an open surface), half extents hu x hv along
    /// the two other axes, subdivided n x n (n >= 1). No box information (a surface contains nothing).
    pub fn plate(axis: usize, hu: f64, hv: f64, n: usize) -> RMesh {
        let n = n.max(1);
        let (u, v) = ((axis + 1) % 3, (axis + 2) % 3);
        let mut verts: Vec<V3> = vec![];
        let mut tris: Vec<[u32; 3]> = vec![];
        for i in 0..=n {
            for j in 0..=n {
                let mut p = [0.0; 3];
                p[u] = -hu + 2.0 * hu * i as f64 / n as f64;
                p[v] = -hv + 2.0 * hv * j as f64 / n as f64;
                verts.push([f32r(p[0]), f32r(p[1]), f32r(p[2])]);
            }
        }
        let w = (n + 1) as u32;
        for i in 0..n as u32 {
            for j in 0..n as u32 {
                let a = i * w + j;
                tris.push([a, a + 1, a + w]);
                tris.push([a + w, a + 1, a + w + 1]);
            }
        }
        let min_leg = min_leg_of(&verts, &tris);
        RMesh { verts, tris, box_half: None, box_centre: [0.0; 3], min_leg }
    }

    /// Concatenation of two meshes (first `a`, then `b` moved by `offset`): a mesh of two
    /// disconnected parts. No box information (containment tests do not apply).
    pub fn two_parts(a: &RMesh, offset_a: V3, b: &RMesh, offset_b: V3) -> RMesh {
        let mut verts: Vec<V3> = a.verts.iter().map(|v| [f32r(v[0] + offset_a[0]), f32r(v[1] + offset_a[1]), f32r(v[2] + offset_a[2])]).collect();
        let base = verts.len() as u32;
        verts.extend(b.verts.iter().map(|v| [f32r(v[0] + offset_b[0]), f32r(v[1] + offset_b[1]), f32r(v[2] + offset_b[2])]));
        let mut tris = a.tris.clone();
        tris.extend(b.tris.iter().map(|t| [t[0] + base, t[1] + base, t[2] + base]));
        let min_leg = min_leg_of(&verts, &tris);
        RMesh { verts, tris, box_half: None, box_centre: [0.0; 3], min_leg }
    }

    /// The same triangles with every vertex moved by the rigid transform `f` (and rounded to f32 again):
    /// a box that is not aligned with its own local axes. No box information.
    pub fn transformed(&self, f: &Fr) -> RMesh {
        let verts: Vec<V3> = self.verts.iter().map(|v| { let w = f.apply(*v); [f32r(w[0]), f32r(w[1]), f32r(w[2])] }).collect();
        let min_leg = min_leg_of(&verts, &self.tris);
        RMesh { verts, tris: self.tris.clone(), box_half: None, box_centre: [0.0; 3], min_leg }
    }

    pub fn from_trimesh(m: &TriMesh) -> RMesh {
        let verts: Vec<V3> = m.vertices().iter().map(|p| [p.x as f64, p.y as f64, p.z as f64]).collect();
        let tris: Vec<[u32; 3]> = m.indices().iter().map(|t| [t[0], t[1], t[2]]).collect();
        let min_leg = min_leg_of(&verts, &tris);
        RMesh { verts, tris, box_half: None, box_centre: [0.0; 3], min_leg }
    }

    pub fn to_trimesh(&self) -> TriMesh {
        TriMesh::new(self.verts.iter().map(|v| Point::new(v[0] as f32, v[1] as f32, v[2] as f32)).collect(), self.tris.clone()).expect("trimesh")
    }

    pub fn placed(&self, f: &Fr) -> Placed {
        let w: Vec<V3> = self.verts.iter().map(|v| f.apply(*v)).collect();
        let mut tris = Vec::with_capacity(self.tris.len());
        for t in &self.tris {
            let (a, b, c) = (w[t[0] as usize], w[t[1] as usize], w[t[2] as usize]);
            let lo = [a[0].min(b[0]).min(c[0]), a[1].min(b[1]).min(c[1]), a[2].min(b[2]).min(c[2])];
            let hi = [a[0].max(b[0]).max(c[0]), a[1].max(b[1]).max(c[1]), a[2].max(b[2]).max(c[2])];
            tris.push(PTri { a, b, c, lo, hi });
        }
        tris.sort_by(|x, y| x.lo[0].partial_cmp(&y.lo[0]).unwrap());
        Placed { tris, frame: *f, box_half: self.box_half, box_centre: self.box_centre }
    }
}

#[derive(Clone, Debug)]
pub struct PTri {
    pub a: V3,
    pub b: V3,
    pub c: V3,
    pub lo: V3,
    pub hi: V3,
}

pub struct Placed {
    pub tris: Vec<PTri>,
    pub frame: Fr,
    pub box_half: Option<V3>,
    pub box_centre: V3,
}

impl Placed {
    /// world point strictly inside the (synthetic) box by margin m
    pub fn contains_point(&self, p: V3, m: f64) -> Option<bool> {
        let h = self.box_half?;
        let l = self.frame.inv().apply(p);
        Some((0..3).all(|k| (l[k] - self.box_centre[k]).abs() < h[k] - m))
    }
}

fn clamp01(x: f64) -> f64 {
    x.max(0.0).min(1.0)
}

/// squared distance between segments p1q1 and p2q2 (Ericson, Real-Time Collision Detection 5.1.9)
pub fn seg_seg_d2(p1: V3, q1: V3, p2: V3, q2: V3) -> f64 {
    let d1 = sub(q1, p1);
    let d2 = sub(q2, p2);
    let r = sub(p1, p2);
    let a = dot(d1, d1);
    let e = dot(d2, d2);
    let f = dot(d2, r);
    let (s, t);
    let eps = 1e-300;
    if a <= eps && e <= eps {
        return dot(r, r);
    }
    if a <= eps {
        s = 0.0;
        t = clamp01(f / e);
    } else {
        let c = dot(d1, r);
        if e <= eps {
            t = 0.0;
            s = clamp01(-c / a);
        } else {
            let b = dot(d1, d2);
            let denom = a * e - b * b;
            let mut ss = if denom > 1e-30 * a * e { clamp01((b * f - c * e) / denom) } else { 0.0 };
            let mut tt = (b * ss + f) / e;
            if tt < 0.0 {
                tt = 0.0;
                ss = clamp01(-c / a);
            } else if tt > 1.0 {
                tt = 1.0;
                ss = clamp01((b - c) / a);
            }
            s = ss;
            t = tt;
        }
    }
    let c1 = add(p1, scale(d1, s));
    let c2 = add(p2, scale(d2, t));
    let d = sub(c1, c2);
    dot(d, d)
}

/// squared distance point - triangle (Ericson 5.1.5)
pub fn pt_tri_d2(p: V3, a: V3, b: V3, c: V3) -> f64 {
    let ab = sub(b, a);
    let ac = sub(c, a);
    let ap = sub(p, a);
    let d1 = dot(ab, ap);
    let d2 = dot(ac, ap);
    let cl = |q: V3| {
        let d = sub(p, q);
        dot(d, d)
    };
    if d1 <= 0.0 && d2 <= 0.0 {
        return cl(a);
    }
    let bp = sub(p, b);
    let d3 = dot(ab, bp);
    let d4 = dot(ac, bp);
    if d3 >= 0.0 && d4 <= d3 {
        return cl(b);
    }
    let vc = d1 * d4 - d3 * d2;
    if vc <= 0.0 && d1 >= 0.0 && d3 <= 0.0 {
        let v = d1 / (d1 - d3);
        return cl(add(a, scale(ab, v)));
    }
    let cp = sub(p, c);
    let d5 = dot(ab, cp);
    let d6 = dot(ac, cp);
    if d6 >= 0.0 && d5 <= d6 {
        return cl(c);
    }
    let vb = d5 * d2 - d1 * d6;
    if vb <= 0.0 && d2 >= 0.0 && d6 <= 0.0 {
        let w = d2 / (d2 - d6);
        return cl(add(a, scale(ac, w)));
    }
    let va = d3 * d6 - d5 * d4;
    if va <= 0.0 && (d4 - d3) >= 0.0 && (d5 - d6) >= 0.0 {
        let w = (d4 - d3) / ((d4 - d3) + (d5 - d6));
        return cl(add(b, scale(sub(c, b), w)));
    }
    let denom = 1.0 / (va + vb + vc);
    let v = vb * denom;
    let w = vc * denom;
    cl(add(a, add(scale(ab, v), scale(ac, w))))
}

/// Segment pq crossing triangle abc: returns the "piercing strength": min(|dist of p to plane|,
/// |dist of q to plane|, distance of the crossing point to the triangle border), or None.
pub fn seg_tri_pierce(p: V3, q: V3, a: V3, b: V3, c: V3) -> Option<f64> {
    let n = cross(sub(b, a), sub(c, a));
    let nn = norm(n);
    if nn < 1e-300 {
        return None;
    }
    let n = scale(n, 1.0 / nn);
    let dp = dot(sub(p, a), n);
    let dq = dot(sub(q, a), n);
    if dp * dq > 0.0 || (dp == 0.0 && dq == 0.0) {
        return None;
    }
    let t = dp / (dp - dq);
    let x = add(p, scale(sub(q, p), t));
    // inside test with distance to the three edges (in-plane)
    let mut border = f64::INFINITY;
    let vs = [a, b, c];
    for k in 0..3 {
        let e0 = vs[k];
        let e1 = vs[(k + 1) % 3];
        let edge = sub(e1, e0);
        let inward = cross(n, edge);
        let l = norm(inward);
        if l < 1e-300 {
            return None;
        }
        let d = dot(sub(x, e0), inward) / l;
        if d < 0.0 {
            return None;
        }
        border = border.min(d);
    }
    Some(dp.abs().min(dq.abs()).min(border))
}

pub struct PairResult {
    /// minimum surface distance (0 when triangles intersect)
    pub dist: f64,
    /// strongest piercing found (0 when no triangle pair intersects)
    pub pierce: f64,
    pub intersects: bool,
}

fn aabb_d2(a: &PTri, b: &PTri) -> f64 {
    let mut s = 0.0;
    for k in 0..3 {
        let d = (a.lo[k] - b.hi[k]).max(b.lo[k] - a.hi[k]).max(0.0);
        s += d * d;
    }
    s
}

pub fn tri_tri(a: &PTri, b: &PTri) -> (f64, f64) {
    // (squared distance, pierce strength)
    let ea = [(a.a, a.b), (a.b, a.c), (a.c, a.a)];
    let eb = [(b.a, b.b), (b.b, b.c), (b.c, b.a)];
    let mut pierce: f64 = -1.0;
    for (p, q) in ea {
        if let Some(s) = seg_tri_pierce(p, q, b.a, b.b, b.c) {
            pierce = pierce.max(s);
        }
    }
    for (p, q) in eb {
        if let Some(s) = seg_tri_pierce(p, q, a.a, a.b, a.c) {
            pierce = pierce.max(s);
        }
    }
    if pierce >= 0.0 {
        return (0.0, pierce);
    }
    let mut d2 = f64::INFINITY;
    for (p, q) in ea {
        for (r, s) in eb {
            d2 = d2.min(seg_seg_d2(p, q, r, s));
        }
    }
    for p in [a.a, a.b, a.c] {
        d2 = d2.min(pt_tri_d2(p, b.a, b.b, b.c));
    }
    for p in [b.a, b.b, b.c] {
        d2 = d2.min(pt_tri_d2(p, a.a, a.b, a.c));
    }
    (d2, 0.0)
}

/// Brute force minimum distance between two placed meshes; triangles sorted by lo.x, sweep with
/// the running best as cut-off. `cutoff`: distances above it need not be resolved exactly.
pub fn mesh_mesh(a: &Placed, b: &Placed, cutoff: f64) -> PairResult {
    let mut best2 = f64::INFINITY;
    let mut pierce: f64 = 0.0;
    let mut intersects = false;
    // distances beyond `far` need not be resolved: the caller only compares with thresholds <= cutoff
    let far = 2.0 * cutoff + 0.01;
    let far2 = far * far;
    // whole-mesh bounding boxes first
    let bb = |t: &Vec<PTri>| {
        let mut lo = [f64::INFINITY; 3];
        let mut hi = [f64::NEG_INFINITY; 3];
        for x in t {
            for k in 0..3 {
                lo[k] = lo[k].min(x.lo[k]);
                hi[k] = hi[k].max(x.hi[k]);
            }
        }
        (lo, hi)
    };
    let (alo, ahi) = bb(&a.tris);
    let (blo, bhi) = bb(&b.tris);
    let mut gap2 = 0.0;
    for k in 0..3 {
        let d = (alo[k] - bhi[k]).max(blo[k] - ahi[k]).max(0.0);
        gap2 += d * d;
    }
    if gap2 > far2 {
        return PairResult { dist: f64::INFINITY, pierce: 0.0, intersects: false };
    }
    for ta in &a.tris {
        // skip triangles of a that are far from b's bounding box
        let mut g2 = 0.0;
        for k in 0..3 {
            let d = (ta.lo[k] - bhi[k]).max(blo[k] - ta.hi[k]).max(0.0);
            g2 += d * d;
        }
        if g2 > best2.min(far2) {
            continue;
        }
        for tb in &b.tris {
            let lim2 = best2.min(far2);
            if tb.lo[0] > ta.hi[0] + lim2.sqrt() {
                break; // sorted by lo.x: all following are farther in x
            }
            if aabb_d2(ta, tb) > lim2 {
                continue;
            }
            let (d2, p) = tri_tri(ta, tb);
            if d2 == 0.0 {
                intersects = true;
                pierce = pierce.max(p);
                best2 = 0.0;
            } else if d2 < best2 {
                best2 = d2;
            }
        }
    }
    PairResult { dist: best2.sqrt(), pierce, intersects }
}
