//! placeholder (synthetic meshes + brute force distances) - filled in with C10
