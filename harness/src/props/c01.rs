//! C01 — every inverse-kinematics solution returned reproduces the requested pose.

use crate::gen::*;
use crate::props::ik::*;
use crate::props::{robot_hash, robot_json};
use crate::refmodel::*;
use crate::report::{hash_combine, hash_f64s, jf, Mon};
use crate::rng::Rng;
use crate::{Kind, Prop, Spec, Tier};
use rs_opw_kinematics::kinematics_impl::OPWKinematics;
use serde_json::json;
use std::f64::consts::PI;

pub fn prop() -> Prop {
    Prop { id: "C01", spec, run_case, finalize: None }
}

fn spec() -> Spec {
    Spec {
        kinds: vec![Kind { name: "ik_sound", quick: 800_000, thorough: 20_000_000, serial: false }, Kind { name: "shared_history", quick: 40_000, thorough: 1_000_000, serial: false }],
        rule: "each case = generated robot (all classes incl. degenerate, 64 sign patterns, offsets, dof 5/6) x pose (reachable / random SE(3) / reach boundary / wrist centre on axis 1 / wrist singular / hostile NaN-inf-nonunit) x previous (generating, shifted by turns, uniform, far outside, sentinel, non-finite) ; all four inverse entry points are called and EVERY returned vector is pushed through the reference chain; non-trivial = a call returned >= 1 vector; distinct = hash(robot, pose, previous, entry point) Workload additions (rounds 4-6 of seeded changes): solvers built through new or new_with_constraints with limits that exclude nothing; dof-5 robots with a blocked or an unblocked sixth sign; previous classes generating+1e-9..1e-4 noise and generating-with-exact-zeros; kind shared_history = 2-4 robots sharing link lengths (other signs / offsets / c4) asked bit-identical poses and previous vectors in interleaved order on one thread. Rounds 7-9: non-finite J6 handed to inverse_5dof; joints at micro-radian values; robots at x25..x100 / x0.01..x0.1 scale; previous = a posture with the same TCP and another orientation; a fifth of the cases additionally through Tool / Base / Frame stacks (incl. yaw-only and far-away bases). Round 10: one solver in eight has real joint limits (unconstrained joints, windows around the generating value, wide ranges; any sorting weight); wrapper stacks may contain a Parallelogram coupling.",
        assumptions: vec![
            "stated accuracy 1e-6 m / 1e-6 rad plus slack 1e-9 + 1e-12*reach for the difference between the library FK and the reference chain",
            "for hostile poses (non-finite, non-unit quaternion) only no-panic and finiteness are required: there is no SE(3) element to reproduce",
            "5-DOF entry points and dof-5 robots: position and tool axis only",
        ],
        minimums: vec![("oracle_evals", 5_000_000, 100_000_000), ("returned_vectors", 3_000_000, 60_000_000), ("hostile_calls_survived", 100_000, 2_000_000), ("history.steps", 300_000, 7_000_000), ("solvers_with_real_limits", 60_000, 1_500_000)],
    }
}

pub const POS_TOL: f64 = 1e-6;
pub const ROT_TOL: f64 = 1e-6;

fn run_case(kind: &str, idx: u64, rng: &mut Rng, mon: &mut Mon, _tier: Tier) {
    if kind == "shared_history" {
        return shared_history(idx, rng, mon);
    }
    let robot = gen_robot(rng, idx, RobotMode::All, 0.2);
    let rp = robot.rp;
    let pclass = rng.usize(6);
    let gp = gen_pose(rng, &rp, pclass);
    // One solver in eight has REAL joint limits (whatever they exclude, what is returned must still land on the pose):
    // per joint unconstrained (from == to), a window of 0.05 .. 1.5 rad around the generating value (the previous vector
    // is then often outside it), or a wide random range; sorting weight 0 / 1 / random.
    let kin = if rng.usize(8) == 0 {
        let (mut lf, mut lt) = ([0.0; 6], [0.0; 6]);
        for j in 0..6 {
            let around = gp.q.map(|q| q[j]).unwrap_or(0.0);
            match rng.usize(10) {
                0..=3 => {}
                4..=6 => {
                    let w = rng.logu(0.05, 1.5);
                    lf[j] = around - w * rng.range(0.2, 1.0);
                    lt[j] = around + w * rng.range(0.2, 1.0);
                }
                _ => {
                    lf[j] = rng.range(-3.1, 0.0);
                    lt[j] = rng.range(0.0, 3.1);
                }
            }
        }
        mon.count("solvers_with_real_limits");
        rs_opw_kinematics::kinematics_impl::OPWKinematics::new_with_constraints(to_params(&rp), rs_opw_kinematics::constraints::Constraints::new(lf, lt, weight(rng)))
    } else {
        make_solver(rng, &rp)
    };
    let (prev, prev_class) = gen_prev(rng, gp.q.as_ref(), rng.clone().usize(8));
    let _ = rng.next_u64();
    // one case in twenty: the previous vector is a posture with the SAME tool centre point and another orientation
    // (re-orienting about a fixed TCP: tilt of 0.001 .. 20 degrees)
    let (prev, prev_class) = if gp.proper && rng.usize(20) == 0 {
        let t = iso_to_fr(&gp.iso);
        let tilt = axis_angle(col(&random_rotation(rng), 0), rng.logu(1e-5, 0.35));
        let other = Fr { r: Fr::new(tilt, [0.0; 3]).mul(&Fr::new(t.r, [0.0; 3])).r, p: t.p };
        match call(&kin, Entry::Inverse, &fr_to_iso(&other), &prev, 0.0) {
            Ok(s) if !s.is_empty() => (s[rng.usize(s.len())], "same_tcp_other_orientation"),
            _ => (prev, prev_class),
        }
    } else {
        (prev, prev_class)
    };
    // (one case in thirty hands a non-finite J6 to inverse_5dof: nothing non-finite may come back)
    let j6 = if rng.usize(30) == 0 { *rng.pick(&[f64::NAN, f64::INFINITY, f64::NEG_INFINITY]) } else { *rng.pick(&[0.0, PI, -PI, 1.0, -2.5, 1e3]) };
    mon.count(&format!("pose_class.{}", gp.class));
    mon.count(&format!("prev_class.{}", prev_class));
    mon.count(&format!("robot_class.{}", robot.class));
    if robot.sign_pattern < 64 {
        mon.seen("sign_patterns", format!("{:06b}", robot.sign_pattern));
    }
    if rp.b != 0.0 {
        mon.count("b_nonzero");
    }
    check_calls(mon, &robot, &kin, &gp, &prev, prev_class, j6, &ENTRIES);
    if idx < 2 {
        mon.sample(json!({"robot": robot_json(&robot), "pose_class": gp.class, "prev_class": prev_class, "prev": jf(&prev)}));
    }
    // a fifth of the cases additionally asks the same solver through a stack of Tool / Base / Frame wrappers (6-DOF entry
    // points of 6-DOF robots: every answer must land on the requested pose through the reference composition)
    if gp.proper && rp.dof == 6 && rng.bool(0.2) {
        use crate::props::stack::*;
        let layers = gen_stack(rng, 1 + rng.clone().usize(2), false, &["Tool", "Base", "Frame", "Tool", "Base", "Frame", "Para"]);
        let _ = rng.next_u64();
        let stacked = build(std::sync::Arc::new(kin), &layers);
        // the request in stack coordinates: the same flange pose seen through the stack
        let mut request = iso_to_fr(&gp.iso);
        for l in &layers {
            match l {
                Layer::Tool(x) | Layer::Frame(x) => request = request.mul(x),
                Layer::Base(x) => request = x.mul(&request),
                _ => {}
            }
        }
        let lever: f64 = layers.iter().map(|l| match l { Layer::Tool(f) | Layer::Frame(f) => norm(f.p), _ => 0.0 }).sum();
        let far: f64 = layers.iter().map(|l| match l { Layer::Base(f) => norm(f.p), _ => 0.0 }).sum();
        for e in [Entry::Inverse, Entry::Continuing] {
            mon.count("calls_through_a_wrapper_stack");
            let sols = match call(stacked.as_ref(), e, &fr_to_iso(&request), &prev, 0.0) {
                Ok(s) => s,
                Err(msg) => {
                    mon.violation(&format!("panic:stack:{}", e.name()), "inverse entry point of a wrapper stack panicked", json!({"robot": robot_json(&robot), "stack": stack_json(&layers), "panic": msg}));
                    continue;
                }
            };
            for s in &sols {
                if !s.iter().all(|x| x.is_finite()) {
                    mon.violation(&format!("non-finite:stack:{}", e.name()), "a wrapper stack returned a non-finite joint vector", json!({"robot": robot_json(&robot), "stack": stack_json(&layers), "solution": jf(s)}));
                    continue;
                }
                let got = ref_forward(&rp, &layers, s);
                let (dp, dr) = (pos_dist(&got, &request), rot_angle(&got.r, &request.r));
                if !(dp <= POS_TOL * (1.0 + lever) + 1e-9 + 1e-12 * (rp.reach() + far + lever) && dr <= ROT_TOL + 1e-9) {
                    mon.violation(&format!("pose:stack:{}", e.name()), "an answer of a wrapper stack does not reproduce the requested pose through the reference composition", json!({"robot": robot_json(&robot), "stack": stack_json(&layers), "entry": e.name(), "prev": jf(&prev), "solution": jf(s), "dp": dp, "dr": dr}));
                } else {
                    mon.held();
                }
            }
        }
    }
}

/// History workload: several robots that share their link lengths (and so a good part of any key a
/// cache might use) but differ in sign corrections / offsets / one length are asked for bit-identical
/// poses and previous vectors one after the other ON THE SAME THREAD, each answer being checked against
/// that robot's own reference chain. An answer may depend on the robot and the arguments only, not on
/// what was asked before.
fn shared_history(idx: u64, rng: &mut Rng, mon: &mut Mon) {
    let first = gen_robot(rng, idx, RobotMode::All, 0.2);
    let mut robots = vec![first.clone()];
    for _ in 0..(1 + rng.usize(3)) {
        let mut r = first.clone();
        match rng.usize(4) {
            0 => {
                let j = rng.usize(6);
                r.rp.signs[j] = -r.rp.signs[j];
            }
            1 => r.rp.offsets[rng.usize(6)] += *rng.pick(&[PI / 2.0, -PI / 2.0, 0.3, PI]),
            2 => {
                for j in 0..6 {
                    if rng.bool(0.5) {
                        r.rp.signs[j] = -r.rp.signs[j];
                    }
                    if rng.bool(0.3) {
                        r.rp.offsets[j] += rng.range(-1.0, 1.0);
                    }
                }
            }
            _ => r.rp.c4 += rng.range(0.01, 0.1),
        }
        r.sign_pattern = 64;
        robots.push(r);
    }
    let kins: Vec<OPWKinematics> = robots.iter().map(|r| make_solver(rng, &r.rp)).collect();
    // shared targets: poses of the first robot (any class) asked of every robot
    let n_targets = 1 + rng.usize(4);
    let targets: Vec<_> = (0..n_targets).map(|_| { let c = rng.usize(5); gen_pose(rng, &first.rp, c) }).collect();
    let prevs: Vec<_> = targets.iter().map(|t| gen_prev(rng, t.q.as_ref(), rng.clone().usize(8))).collect();
    let _ = rng.next_u64();
    let j6 = *rng.pick(&[0.0, 1.0, -2.5]);
    // interleavings: target-major (robot changes between two identical queries) or robot-major with a repeat
    let order = rng.usize(3);
    let mut schedule: Vec<(usize, usize)> = vec![];
    match order {
        0 => for t in 0..n_targets { for r in 0..robots.len() { schedule.push((r, t)); } },
        1 => { for r in 0..robots.len() { for t in 0..n_targets { schedule.push((r, t)); } } for t in 0..n_targets { for r in (0..robots.len()).rev() { schedule.push((r, t)); } } },
        _ => for _ in 0..(2 * n_targets * robots.len()) { schedule.push((rng.usize(robots.len()), rng.usize(n_targets))); },
    }
    mon.count(&format!("history.order.{}", ["target_major", "robot_major_then_reverse", "random"][order]));
    for (r, t) in schedule {
        // one entry point per step, so that consecutive calls really alternate between robots
        let e = [ENTRIES[rng.usize(4)]];
        mon.count("history.steps");
        check_calls(mon, &robots[r], &kins[r], &targets[t], &prevs[t].0, prevs[t].1, j6, &e);
    }
}

#[allow(clippy::too_many_arguments)]
fn check_calls(mon: &mut Mon, robot: &Robot, kin: &OPWKinematics, gp: &GenPose, prev: &[f64; 6], prev_class: &'static str, j6: f64, entries: &[Entry]) {
    let rp = robot.rp;
    let prev = *prev;
    let reach = rp.reach();
    let slack_p = 1e-9 + 1e-12 * reach;
    let slack_r = 1e-9;
    let target = iso_to_fr(&gp.iso);
    for &e in entries {
        let res = call(kin, e, &gp.iso, &prev, j6);
        let detail = |what: &str, extra: serde_json::Value| {
            let q = gp.iso.rotation.quaternion();
            json!({"robot": robot_json(&robot), "entry": e.name(), "pose_class": gp.class, "prev_class": prev_class,
                   "pose_xyz": jf(&[gp.iso.translation.vector.x, gp.iso.translation.vector.y, gp.iso.translation.vector.z]),
                   "pose_quat_wijk": jf(&[q.w, q.i, q.j, q.k]), "prev": jf(&prev), "j6": j6, "clause": what, "extra": extra})
        };
        let sols = match res {
            Err(msg) => {
                mon.violation(&format!("panic:{}", e.name()), "inverse entry point panicked", detail("no-panic", json!({"panic": msg})));
                continue;
            }
            Ok(s) => s,
        };
        if !gp.proper {
            mon.count("hostile_calls_survived");
        }
        mon.held(); // no panic
        mon.count(&format!("cell.{}.{}.{}", if rp.dof == 5 { "dof5" } else { "dof6" }, gp.class, e.name()));
        if sols.is_empty() {
            mon.count("empty_answers");
            continue;
        }
        mon.nontrivial(hash_combine(hash_combine(robot_hash(&robot), hash_f64s(&target.p)), hash_combine(hash_f64s(&prev), e as u64 + 1)));
        for s in &sols {
            mon.count("returned_vectors");
            // finiteness (J6 of the 5-DOF variants is the caller's value; non-finite previous is only used with 6-DOF continuing)
            let fin = s.iter().all(|x| x.is_finite());
            if !fin {
                mon.violation(&format!("non-finite:{}", e.name()), "returned joint vector has a non-finite component", detail("finite", json!({"solution": jf(s)})));
                continue;
            }
            mon.held();
            if e == Entry::Inverse {
                let lim = PI + 1e-12;
                let upto = if rp.dof == 5 { 5 } else { 6 };
                if s[..upto].iter().any(|a| a.abs() > lim) {
                    mon.violation("inverse-not-normalised", "plain inverse returned an angle outside [-pi,pi]", detail("normalised", json!({"solution": jf(s)})));
                } else {
                    mon.held();
                }
            }
            if !gp.proper {
                continue;
            }
            let got = fk(&rp, s);
            let dp = pos_dist(&got, &target);
            let only_axis = e.is_5dof() || rp.dof == 5;
            let dr = if only_axis { vec_angle(got.z(), target.z()) } else { rot_angle(&got.r, &target.r) };
            mon.max("pos_err", dp);
            mon.max(if only_axis { "axis_err" } else { "rot_err" }, dr);
            if !(dp <= POS_TOL + slack_p) {
                mon.violation(&format!("pose-position:{}", e.name()), "returned vector does not reproduce the requested position", detail("position", json!({"solution": jf(s), "dp": dp})));
            } else if !(dr <= ROT_TOL + slack_r) {
                mon.violation(
                    &format!("{}:{}", if only_axis { "pose-tool-axis" } else { "pose-rotation" }, e.name()),
                    "returned vector does not reproduce the requested orientation",
                    detail("orientation", json!({"solution": jf(s), "dr": dr, "axis_only": only_axis})),
                );
            } else {
                mon.held();
            }
        }
    }
}
