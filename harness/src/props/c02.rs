//! C02 — inverse kinematics is complete away from singularities; the answer set is closed.

use crate::gen::*;
use crate::props::{robot_hash, robot_json};
use crate::refmodel::*;
use crate::report::{hash_combine, hash_f64s, jf, Mon};
use crate::rng::Rng;
use crate::{Kind, Prop, Spec, Tier};
use rs_opw_kinematics::kinematic_traits::Kinematics;
use rs_opw_kinematics::kinematics_impl::OPWKinematics;
use serde_json::json;
use std::f64::consts::PI;

pub fn prop() -> Prop {
    Prop { id: "C02", spec, run_case, finalize: None }
}

fn spec() -> Spec {
    Spec {
        kinds: vec![Kind { name: "ik_complete", quick: 800_000, thorough: 20_000_000, serial: false }],
        rule: "each case = generated non-degenerate 6-DOF robot (industrial, bundled, zero-heavy, negative lengths; 64 sign patterns; offsets) x joint vector q (uniform, round multiples of 15 degrees, or placed close to the singularity margins); the pose comes from the reference chain or the library's forward(), half of the time written with the negated quaternion; inverse(FK_ref(q)) must contain q mod 2pi, the wrist-flipped twin of every answer, no duplicates, and re-solving the pose of every answer must give the same set; cases with a singularity measure below the margin are inconclusive(near-singular); non-trivial = in-domain case with >= 1 answer; distinct = hash(robot, q) Workload additions: solvers built through either constructor; a third of the robots asked through Tool / Base / Frame stacks of depth 1-2 (incl. tiny rotations, identity / rotation-only / translation-only transforms). Rounds 7-9: the classic J2->J3 parallelogram innermost in a tenth of the cases (joint-by-joint modulo-2pi comparison except exactly at the seam of the driven joint); axis-aligned joint vectors.",
        assumptions: vec![
            "domain margins: |sin t5|, |sin(t3+psi3)| and wrist-centre distance from axis 1 / reach all >= 1e-3 (refmodel measures)",
            "match tolerance modulo 2pi: 1e-6 rad per joint when all margins >= 1e-2, else 1e-4",
            "set-closure differences are only counted when every differing branch is itself >= 1e-2 away from elbow/shoulder/wrist singularities (a borderline-reachable branch may legitimately appear/disappear within the solver's 1e-6 tolerance)",
        ],
        minimums: vec![("in_domain", 500_000, 12_000_000), ("oracle_evals", 3_000_000, 80_000_000), ("b_nonzero", 100_000, 2_000_000)],
    }
}

const MARGIN: f64 = 1e-3;

fn min_measure(rp: &RParams, q: &[f64; 6]) -> f64 {
    let m = sing_measures(rp, q);
    m.wrist.min(m.elbow).min(m.shoulder)
}

fn same_mod(a: &[f64; 6], b: &[f64; 6], tol: f64) -> bool {
    (0..6).all(|j| circ_dist(a[j], b[j]) <= tol)
}

fn twin(rp: &RParams, s: &[f64; 6]) -> [f64; 6] {
    let mut t = rp.theta(s);
    t[3] += PI;
    t[4] = -t[4];
    t[5] -= PI;
    rp.from_theta(&t)
}

fn run_case(_kind: &str, idx: u64, rng: &mut Rng, mon: &mut Mon, _tier: Tier) {
    let robot = gen_robot(rng, idx, RobotMode::NonDegenerate, 0.0);
    let rp = robot.rp;
    let bare = make_solver(rng, &rp);
    // a third of the robots is asked through a stack of Tool / Base / Frame wrappers (depth 1..2, incl. tiny
    // rotations and identity / rotation-only / translation-only transforms): completeness and closure are
    // statements about joint vectors and must survive the rigid transforms on either side
    let layers: Vec<crate::props::stack::Layer> = if rng.bool(0.33) { crate::props::stack::gen_stack(rng, 1 + rng.clone().usize(2), false, &["Tool", "Base", "Frame"]) } else { vec![] };
    let _ = rng.next_u64();
    // a tenth: the classic parallelogram (J2 drives J3; integer and non-integer scaling) innermost - the wrist
    // joints, and so the twin relation, are not touched by it
    let mut layers = layers;
    if rng.bool(0.1) {
        layers.insert(0, crate::props::stack::Layer::Para { driven: 1, coupled: 2, scaling: *rng.pick(&[1.0, 1.0, 0.5, -1.5, 2.0, 0.75]) });
        mon.count("robots_behind_a_parallelogram");
    }
    let layers = layers;
    if !layers.is_empty() {
        mon.count("robots_behind_a_wrapper_stack");
    }
    let kin = crate::props::stack::build(std::sync::Arc::new(bare), &layers);
    let mut q = joints_uniform(rng, PI);
    // a fifth of the joint vectors consists of round angles (multiples of 15 degrees): flange
    // orientations with exact zeros / equal entries, where matrix -> quaternion conversions change case
    let round = rng.bool(0.2);
    if round {
        q = std::array::from_fn(|_| (rng.int(-12, 12) as f64 * 15.0).to_radians());
        // (a third of them axis-aligned: every joint a multiple of 90 degrees, J5 at +-90 - flange orientations exactly
        // on the seams of Euler angles and of matrix-to-quaternion case distinctions)
        if rng.bool(0.33) {
            q = std::array::from_fn(|_| (rng.int(-2, 2) as f64 * 90.0).to_radians());
            q[4] = rng.sign() * std::f64::consts::FRAC_PI_2;
            q[2] = (rng.int(-12, 12) as f64 * 15.0).to_radians();
        }
        mon.count("round_angle_vectors");
    }
    let placed = if round { 1 } else { rng.usize(4) };
    // bias a quarter of the cases towards the margins
    if placed == 0 {
        let d = rng.sign() * rng.logu(1e-3, 5e-2);
        match rng.usize(2) {
            0 => crate::props::ik::place_t5(&rp, &mut q, rng.int(-1, 1) as i32, d),
            _ => {
                let t3 = -rp.psi3() + if rng.bool(0.5) { 0.0 } else { PI } + d;
                q[2] = (t3 + rp.offsets[2]) * rp.signs[2] as f64;
            }
        }
    }
    let inner_of = |v: &[f64; 6]| crate::props::stack::ref_inner_joints(&layers, v);
    // configurations are compared in the wrapped robot's coordinates: behind a coupling with non-integer scaling a
    // whole turn of the driven joint is not a whole turn of the coupled one, although the posture is the same
    // ... so exactly at the +-pi seam of a driven joint (where -pi and +pi are the same angle) the comparison falls back
    // to the wrapped robot's coordinates; everywhere else "modulo 2pi" is taken literally, joint by joint
    let driven: Vec<usize> = layers.iter().filter_map(|l| if let crate::props::stack::Layer::Para { driven, .. } = l { Some(*driven) } else { None }).collect();
    let on_seam = |v: &[f64; 6]| driven.iter().any(|d| (v[*d].abs() - PI).abs() < 1e-6);
    let same = |a: &[f64; 6], b: &[f64; 6], tol: f64| if on_seam(a) || on_seam(b) { same_mod(&inner_of(a), &inner_of(b), tol) } else { same_mod(a, b, tol) };
    let mq = min_measure(&rp, &inner_of(&q));
    mon.count(&format!("robot_class.{}", robot.class));
    if !(mq >= MARGIN) {
        mon.inconclusive("near-singular");
        return;
    }
    mon.count("in_domain");
    if rp.b != 0.0 {
        mon.count("b_nonzero");
    }
    if robot.sign_pattern < 64 {
        mon.seen("sign_patterns", format!("{:06b}", robot.sign_pattern));
    }
    let tol = if mq >= 1e-2 { 1e-6 } else { 1e-4 };
    // the pose as the reference chain gives it, as the library's own forward() gives it, or either of them
    // written with the negated quaternion (q and -q are the same rotation)
    let pose_src = rng.usize(4);
    let pose = if pose_src % 2 == 0 { fr_to_iso(&crate::props::stack::ref_forward(&rp, &layers, &q)) } else { kin.forward(&q) };
    let pose = if pose_src >= 2 { Iso::from_parts(pose.translation, nalgebra::Unit::new_unchecked(-pose.rotation.into_inner())) } else { pose };
    mon.count(&format!("pose_source.{}", ["reference_chain", "library_forward", "reference_chain_negated_quaternion", "library_forward_negated_quaternion"][pose_src]));
    let sols = kin.inverse(&pose);
    mon.count(&format!("branches.{}", sols.len()));
    let detail = |what: &str, extra: serde_json::Value| json!({"robot": robot_json(&robot), "stack": crate::props::stack::stack_json(&layers), "q": jf(&q), "min_margin": mq, "pose_source": pose_src, "clause": what, "answers": sols.iter().map(|s| jf(s)).collect::<Vec<_>>(), "extra": extra});

    // 1. completeness
    if !sols.iter().any(|s| same(s, &q, tol)) {
        mon.violation("missing-generating-configuration", "inverse(FK(q)) does not contain q modulo 2pi", detail("complete", json!({})));
    } else {
        mon.held();
    }
    if sols.is_empty() {
        return;
    }
    mon.nontrivial(hash_combine(robot_hash(&robot), hash_f64s(&q)));
    // 3. duplicates
    let mut dup = false;
    for a in 0..sols.len() {
        for b in (a + 1)..sols.len() {
            if same(&sols[a], &sols[b], 1e-7) {
                dup = true;
            }
        }
    }
    if dup {
        mon.violation("duplicate-answers", "two answers are identical modulo 2pi", detail("duplicates", json!({})));
    } else {
        mon.held();
    }
    // 2. wrist-flipped twin of each answer
    for s in &sols {
        let ms = min_measure(&rp, &inner_of(s));
        if ms < 1e-2 {
            mon.inconclusive("twin:answer-near-singular");
            continue;
        }
        let tw = twin(&rp, s);
        if !sols.iter().any(|o| same(o, &tw, 1e-6)) {
            mon.violation("missing-wrist-twin", "wrist-flipped twin (J4+pi,-J5,J6-pi) of an answer is not in the answer set", detail("twin", json!({"answer": jf(s), "twin": jf(&tw)})));
        } else {
            mon.held();
        }
    }
    // 4. re-solving the pose of each answer gives the same set
    for s in &sols {
        let pose_s = kin.forward(s);
        let again = kin.inverse(&pose_s);
        let mut diff: Vec<[f64; 6]> = vec![];
        for a in &sols {
            if !again.iter().any(|b| same(a, b, 1e-4)) {
                diff.push(*a);
            }
        }
        for b in &again {
            if !sols.iter().any(|a| same(a, b, 1e-4)) {
                diff.push(*b);
            }
        }
        if diff.is_empty() && again.len() == sols.len() {
            mon.held();
        } else if diff.iter().any(|d| min_measure(&rp, &inner_of(d)) < 1e-2) || diff.is_empty() {
            mon.inconclusive("closure:differing-branch-near-singular");
        } else {
            mon.violation("answer-set-not-closed", "solving the pose of a returned solution gives a different answer set", detail("closed", json!({"answer": jf(s), "size_again": again.len(), "differing": diff.iter().map(|d| jf(d)).collect::<Vec<_>>()})));
        }
    }
    if idx < 2 {
        mon.sample(json!({"robot": robot_json(&robot), "q": jf(&q), "answers": sols.len(), "min_margin": mq}));
    }
}
