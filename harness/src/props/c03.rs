//! C03 — forward kinematics equals the OPW link chain, for the tool point and every link.

use crate::gen::*;
use crate::props::{robot_hash, robot_json};
use crate::refmodel::*;
use crate::report::{hash_combine, hash_f64s, jf, Mon};
use crate::rng::Rng;
use crate::{Kind, Prop, Spec, Tier};
use rs_opw_kinematics::kinematic_traits::Kinematics;
use rs_opw_kinematics::kinematics_impl::OPWKinematics;
use serde_json::json;

pub fn prop() -> Prop {
    Prop { id: "C03", spec, run_case, finalize: None }
}

fn spec() -> Spec {
    Spec {
        kinds: vec![Kind { name: "fk", quick: 2_000_000, thorough: 60_000_000, serial: false }, Kind { name: "shared_history", quick: 100_000, thorough: 3_000_000, serial: false }],
        rule: "each case = one generated robot (all geometry classes incl. degenerate, 64 sign patterns round-robin, three offset classes, dof 5/6) x one joint vector (classes [-pi,pi], [-2pi,2pi], 1e3 turns, 1e6 turns); the library's forward() and forward_with_joint_poses() are compared with the plain-array link chain; non-trivial = all results finite; distinct = hash(robot, q) Workload additions: joint classes exact multiples of a right angle and joints resting at exactly 0.0 / -0.0 / denormals; solvers built through either constructor; kind shared_history = robots sharing link lengths evaluated at the bit-identical joint vector alternately on one thread. Rounds 7-9: calibration-sized lengths below 10 micrometres, c3 exactly zero, scaled robots.",
        assumptions: vec![
            "reference chain Tz(c1)Rz(t1).T(a1,b,0)Ry(t2).Tz(c2)Ry(t3).Tx(a2)Rz(t4).Tz(c3)Ry(t5).Tz(c4)Rz(t6), t=sign*q-offset, is the OPW model",
            "tolerance (1e-11 + 2e-15*max|q|)*(1+reach) m and (1e-11 + 2e-15*max|q|) rad absorbs the different floating point evaluation orders (angle sums rounded at ulp(|q|))",
        ],
        minimums: vec![("oracle_evals", 20_000_000, 600_000_000), ("b_nonzero", 300_000, 10_000_000), ("big_q", 300_000, 10_000_000), ("history.steps", 500_000, 15_000_000)],
    }
}

/// History workload: robots that share their link lengths but differ in sign corrections, offsets or
/// one length are evaluated at bit-identical joint vectors one after the other on the same thread, and
/// the same robot is asked twice; every answer is compared with that robot's own chain. The result may
/// depend on the parameters and the joint vector only.
fn shared_history(idx: u64, rng: &mut Rng, mon: &mut Mon) {
    let first = gen_robot(rng, idx, RobotMode::All, 0.15);
    let mut robots = vec![first];
    for _ in 0..(1 + rng.usize(3)) {
        let mut r = first;
        match rng.usize(4) {
            0 => {
                let j = rng.usize(6);
                r.rp.signs[j] = -r.rp.signs[j];
            }
            1 => r.rp.offsets[rng.usize(6)] += *rng.pick(&[std::f64::consts::FRAC_PI_2, -std::f64::consts::FRAC_PI_2, 0.3, std::f64::consts::PI]),
            2 => {
                for j in 0..6 {
                    if rng.bool(0.5) {
                        r.rp.signs[j] = -r.rp.signs[j];
                    }
                    if rng.bool(0.3) {
                        r.rp.offsets[j] += rng.range(-1.0, 1.0);
                    }
                }
            }
            _ => r.rp.c4 += rng.range(0.01, 0.1),
        }
        robots.push(r);
    }
    let kins: Vec<OPWKinematics> = robots.iter().map(|r| make_solver(rng, &r.rp)).collect();
    let nq = 1 + rng.usize(3);
    let qs: Vec<[f64; 6]> = (0..nq).map(|_| { let c = rng.usize(2); joints_class(rng, c) }).collect();
    let steps = 2 * nq * robots.len() + 2;
    let (mut pr, mut pq) = (usize::MAX, usize::MAX);
    for step in 0..steps {
        // every other step keeps the joint vector and changes the robot
        let (r, k) = if step % 2 == 1 && pq != usize::MAX { ((pr + 1 + rng.usize(robots.len() - 1)) % robots.len(), pq) } else { (rng.usize(robots.len()), rng.usize(nq)) };
        pr = r;
        pq = k;
        let rp = robots[r].rp;
        let q = qs[k];
        let refc = chain(&rp, &q);
        let tol = 1e-11 * (1.0 + rp.reach());
        let which = rng.usize(3);
        mon.count("history.steps");
        let detail = |what: &str, dp: f64, dr: f64| json!({"robots": robots.iter().map(robot_json).collect::<Vec<_>>(), "robot_index": r, "q": jf(&q), "step": step, "call": what, "dp": dp, "dr": dr});
        if which != 1 {
            let f = iso_to_fr(&kins[r].forward(&q));
            let (dp, dr) = (pos_dist(&f, &refc[5]), rot_angle(&f.r, &refc[5].r));
            if !(dp <= tol && dr <= 1e-11) {
                mon.violation("history:fk-vs-chain", "forward() differs from the reference chain after other robots / vectors were evaluated on the same thread", detail("forward", dp, dr));
            } else {
                mon.held();
            }
        }
        if which != 0 {
            let links = kins[r].forward_with_joint_poses(&q);
            for i in 0..6 {
                let l = iso_to_fr(&links[i]);
                let (dp, dr) = (pos_dist(&l, &refc[i]), rot_angle(&l.r, &refc[i].r));
                if !(dp <= tol && dr <= 1e-11) {
                    mon.violation("history:link-vs-chain", "a link pose differs from the reference chain after other robots / vectors were evaluated on the same thread", detail("forward_with_joint_poses", dp, dr));
                    break;
                } else {
                    mon.held();
                }
            }
        }
    }
    mon.nontrivial(hash_combine(robot_hash(&first), hash_f64s(&qs[0])));
}

fn run_case(kind: &str, idx: u64, rng: &mut Rng, mon: &mut Mon, _tier: Tier) {
    if kind == "shared_history" {
        return shared_history(idx, rng, mon);
    }
    let robot = gen_robot(rng, idx, RobotMode::All, 0.15);
    let rp = robot.rp;
    let qclass = rng.usize(6);
    // class 4: exact multiples of a right angle (flange orientations that are exact half / quarter turns)
    let q = if qclass == 5 { joints_resting(rng, std::f64::consts::PI) } else if qclass == 4 { std::array::from_fn(|_| rng.int(-4, 4) as f64 * std::f64::consts::FRAC_PI_2) } else { joints_class(rng, qclass) };
    let kin = make_solver(rng, &rp);
    let reach = rp.reach();
    // forward() adds q2+q3+psi3 before taking the sine: for |q| >> 2pi that sum is rounded at
    // ulp(|q|), which the chained form does not do. The tolerance therefore grows with max|q|.
    let maxq = q.iter().fold(0.0f64, |a, b| a.max(b.abs()));
    let ptol = (1e-11 + 2e-15 * maxq) * (1.0 + reach);
    let rtol = 1e-11 + 2e-15 * maxq;

    let fwd = kin.forward(&q);
    let links = kin.forward_with_joint_poses(&q);
    let refc = chain(&rp, &q);
    if rp.b != 0.0 {
        mon.count("b_nonzero");
    }
    if qclass == 2 || qclass == 3 {
        mon.count("big_q");
    }
    mon.count(&format!("robot_class.{}", robot.class));
    mon.count(&format!("q_class.{}", qclass));
    if robot.sign_pattern < 64 {
        mon.seen("sign_patterns", format!("{:06b}", robot.sign_pattern));
    }
    let detail = |what: &str, extra: serde_json::Value| json!({"robot": robot_json(&robot), "q": jf(&q), "clause": what, "extra": extra});

    // 1. flange pose == chain
    let f = iso_to_fr(&fwd);
    let dp = pos_dist(&f, &refc[5]);
    let dr = rot_angle(&f.r, &refc[5].r);
    mon.max("fk_pos_err_rel", dp / (1.0 + reach));
    mon.max("fk_rot_err", dr);
    if !(dp <= ptol && dr <= rtol) {
        mon.violation("fk-vs-chain", "forward() differs from the reference link chain", detail("forward", json!({"dp": dp, "dr": dr})));
    } else {
        mon.held();
    }
    // 2. every link == chain; 6. proper unit rotations
    for i in 0..6 {
        let l = iso_to_fr(&links[i]);
        let dp = pos_dist(&l, &refc[i]);
        let dr = rot_angle(&l.r, &refc[i].r);
        mon.max("link_pos_err_rel", dp / (1.0 + reach));
        if !(dp <= ptol && dr <= rtol) {
            mon.violation(&format!("link-vs-chain:{}", i + 1), "link pose differs from the reference link chain", detail("link", json!({"link": i + 1, "dp": dp, "dr": dr})));
        } else {
            mon.held();
        }
        let qn = quat_norm(&links[i]);
        let m = links[i].rotation.to_rotation_matrix();
        let mm = [[m[(0, 0)], m[(0, 1)], m[(0, 2)]], [m[(1, 0)], m[(1, 1)], m[(1, 2)]], [m[(2, 0)], m[(2, 1)], m[(2, 2)]]];
        let d = det(&mm);
        if !((qn - 1.0).abs() <= 1e-12 && (d - 1.0).abs() <= 1e-11) {
            mon.violation("improper-rotation", "link rotation is not a proper unit rotation", detail("rotation", json!({"link": i + 1, "quat_norm": qn, "det": d})));
        } else {
            mon.held();
        }
    }
    let qn = quat_norm(&fwd);
    if !((qn - 1.0).abs() <= 1e-12) {
        mon.violation("improper-rotation", "forward() quaternion is not unit", detail("rotation", json!({"quat_norm": qn})));
    } else {
        mon.held();
    }
    // 3. last link == forward
    let l6 = iso_to_fr(&links[5]);
    let dp = pos_dist(&l6, &f);
    let dr = rot_angle(&l6.r, &f.r);
    if !(dp <= ptol && dr <= rtol) {
        mon.violation("last-link-vs-forward", "forward_with_joint_poses()[5] differs from forward()", detail("last", json!({"dp": dp, "dr": dr})));
    } else {
        mon.held();
    }
    // 5. consecutive link origins separated by the parameter-defined offsets
    let expect = [rp.a1.hypot(rp.b), rp.c2.abs(), rp.a2.abs(), rp.c3.abs(), rp.c4.abs()];
    let o1 = links[0].translation.vector;
    let d0 = ((o1.x).powi(2) + (o1.y).powi(2) + (o1.z - rp.c1).powi(2)).sqrt();
    if !(d0 <= ptol) {
        mon.violation("origin-offset:1", "link 1 origin is not (0,0,c1)", detail("origin", json!({"d": d0})));
    } else {
        mon.held();
    }
    for i in 0..5 {
        let d = (links[i + 1].translation.vector - links[i].translation.vector).norm();
        if !((d - expect[i]).abs() <= ptol) {
            mon.violation(&format!("origin-offset:{}", i + 2), "distance between consecutive link origins differs from the parameter", detail("origin", json!({"link": i + 2, "d": d, "expected": expect[i]})));
        } else {
            mon.held();
        }
    }
    // 4. link i depends only on joints 1..i: re-randomise joints i+1..6
    let cut = rng.usize(5) + 1; // links 1..cut keep their pose
    let mut q2 = q;
    for j in cut..6 {
        q2[j] = joints_class(rng, qclass.min(3))[j];
    }
    let links2 = kin.forward_with_joint_poses(&q2);
    for i in 0..cut {
        let a = iso_to_fr(&links[i]);
        let b = iso_to_fr(&links2[i]);
        let dp = pos_dist(&a, &b);
        let dr = rot_angle(&a.r, &b.r);
        if !(dp <= ptol && dr <= rtol) {
            mon.violation(&format!("prefix-dependence:{}", i + 1), "link pose changed when only later joints changed", detail("prefix", json!({"link": i + 1, "q2": jf(&q2), "dp": dp, "dr": dr})));
        } else {
            mon.held();
        }
    }
    let finite = fwd.translation.vector.iter().all(|x| x.is_finite());
    if finite {
        mon.nontrivial(hash_combine(robot_hash(&robot), hash_f64s(&q)));
    }
    if idx < 2 {
        mon.sample(json!({"robot": robot_json(&robot), "q": jf(&q), "fk_pos_err": dp, "checked": "forward, 6 links, origins, prefix independence, unit rotations"}));
    }
}
