//! C04 — continuation IK returns solutions ordered by closeness to the previous joints.

use crate::gen::*;
use crate::props::ik::*;
use crate::props::{robot_hash, robot_json};
use crate::refmodel::*;
use crate::report::{hash_combine, hash_f64s, jf, Mon};
use crate::rng::Rng;
use crate::{Kind, Prop, Spec, Tier};
use rs_opw_kinematics::constraints::Constraints;
use rs_opw_kinematics::kinematic_traits::{Kinematics, CONSTRAINT_CENTERED};
use rs_opw_kinematics::kinematics_impl::OPWKinematics;
use serde_json::json;
use std::f64::consts::PI;

pub fn prop() -> Prop {
    Prop { id: "C04", spec, run_case, finalize: None }
}

fn spec() -> Spec {
    Spec {
        kinds: vec![
            Kind { name: "single_call", quick: 600_000, thorough: 15_000_000, serial: false },
            Kind { name: "trajectory", quick: 2_000, thorough: 60_000, serial: false },
            Kind { name: "with_shape", quick: 6_000, thorough: 300_000, serial: false },
            Kind { name: "shared_history", quick: 40_000, thorough: 1_000_000, serial: false },
        ],
        rule: "single_call: non-degenerate robot (dof 5/6) x pose (FK of q / random SE(3)) x previous in [-2pi,2pi]^6 (generating, shifted by whole turns, uniform) or the CONSTRAINT_CENTERED sentinel x {no limits, wide limits with weight 0 / 1 / random}; inverse_continuing and inverse_continuing_5dof: nearest 2pi-representative per angle, non-decreasing documented cost, superset of plain inverse (same solver), previous-realises-pose => first answer. trajectory: dense joint-space trajectories (sums of sinusoids inside [-2pi,2pi], step <= 0.03 rad/joint, 200..1500 steps, truncated where elbow/shoulder margins < 0.1); each call's previous is the preceding first answer; first answer must track q(t) and its increments. with_shape: the same clauses (nearest representative, cost order, free legal previous first) through KinematicsWithShape on synthetic cells with obstacles on other IK branches (its collision filter runs on the rayon pool). non-trivial = call returned >= 2 answers (single_call) / trajectory of >= 50 tracked steps; distinct = hash(robot, pose/trajectory seed, previous) Workload additions: a quarter of the limit sets installed through update_range histories; wrap-around limit classes whose library centre lies up to 3pi; a joint a hair inside +-pi against a previous of exactly +-0.0; a fifth of the solvers behind Tool / Base / Frame stacks; kind with_shape = the same clauses through KinematicsWithShape (filter on the rayon pool) with obstacles on other IK branches. Rounds 7-9: near-tie previous vectors (midpoint of two adjacent answers nudged by 2e-7 rad); limit sets that leave a single IK branch; previous with a joint exactly on the +-2pi border. Round 10: kind shared_history = two or three 6-DOF robots (one parameter apart, or unrelated) asked the bit-identical pose and previous vector in turn on one thread (for each pose, for each robot): each continuation answer contains that robot's own plain solutions, nearest representatives, ordered.",
        assumptions: vec![
            "cost = (1-w)*sum|s-prev| + w*sum|s-centre|, w=0 without limits; prev := constraint centres (zeros without limits) for the sentinel",
            "ties: an angle exactly pi away from previous may take either representative (tolerance 1e-9)",
            "'previous realises the pose => first answer' is evaluated for weight 0 / no limits, previous compliant, and wrist/elbow/shoulder measures >= 1e-3",
            "inside the 0.01 degree wrist band J4/J6 are compared through their model-angle sum (t5~0) or difference (t5~pi)",
        ],
        minimums: vec![("oracle_evals", 3_000_000, 80_000_000), ("trajectory_steps_tracked", 150_000, 5_000_000), ("pi_crossings_tracked", 500, 20_000), ("with_shape.lists_of_three_or_more", 1_000, 50_000), ("with_shape.previous_came_back_first", 1_000, 50_000), ("history.steps", 150_000, 4_000_000)],
    }
}

fn cost(s: &[f64; 6], prev: &[f64; 6], centres: &[f64; 6], w: f64) -> f64 {
    let dp: f64 = (0..6).map(|j| (s[j] - prev[j]).abs()).sum();
    let dc: f64 = (0..6).map(|j| (s[j] - centres[j]).abs()).sum();
    if w == 0.0 {
        dp
    } else if w == 1.0 {
        dc
    } else {
        dp * (1.0 - w) + dc * w
    }
}

fn run_case(kind: &str, idx: u64, rng: &mut Rng, mon: &mut Mon, _tier: Tier) {
    if kind == "trajectory" {
        trajectory(idx, rng, mon);
    } else if kind == "with_shape" {
        with_shape(idx, rng, mon);
    } else if kind == "shared_history" {
        shared_history(idx, rng, mon);
    } else {
        single(idx, rng, mon);
    }
}

/// History workload ("for each pose, for each robot"): two or three robots that differ in one parameter - or are
/// unrelated - are asked for the bit-identical pose with the bit-identical previous vector one after the other on
/// the same thread. Each continuation answer must contain what that robot's own plain solver finds, as nearest
/// representatives, in order of distance to previous.
fn shared_history(idx: u64, rng: &mut Rng, mon: &mut Mon) {
    let first = gen_robot(rng, idx, RobotMode::NonDegenerate, 0.0);
    let mut rps = vec![first.rp];
    for k in 0..(1 + rng.usize(2)) {
        let mut r = first.rp;
        match rng.usize(6) {
            0 => { let j = rng.usize(6); r.signs[j] = -r.signs[j]; }
            1 => r.offsets[rng.usize(6)] += *rng.pick(&[PI / 2.0, -PI / 2.0, 0.3, PI]),
            2 => r.c4 += rng.range(0.01, 0.1),
            3 => r.c2 *= rng.range(0.8, 1.25),
            4 => r.a1 += rng.range(-0.1, 0.1),
            _ => r = gen_robot(rng, idx + 1 + k as u64, RobotMode::NonDegenerate, 0.0).rp,
        }
        rps.push(r);
    }
    let kins: Vec<OPWKinematics> = rps.iter().map(|r| OPWKinematics::new(to_params(r))).collect();
    let n = rps.len();
    for _ in 0..(1 + rng.usize(3)) {
        let q = joints_uniform(rng, PI);
        let pose = fr_to_iso(&fk(&rps[rng.usize(n)], &q));
        let prev = if rng.bool(0.5) { q } else { joints_uniform(rng, 2.0 * PI) };
        for step in 0..(n + 1 + rng.usize(2)) {
            let r = step % n;
            let sols = kins[r].inverse_continuing(&pose, &prev);
            let plain = kins[r].inverse(&pose);
            mon.count("history.steps");
            let detail = |extra: serde_json::Value| json!({"robots": rps.iter().map(|r| json!({"a1": r.a1, "a2": r.a2, "b": r.b, "c1": r.c1, "c2": r.c2, "c3": r.c3, "c4": r.c4, "offsets": r.offsets, "signs": r.signs})).collect::<Vec<_>>(), "robot_index": r, "step": step, "q": jf(&q), "prev": jf(&prev), "answers": sols.iter().map(|s| jf(s)).collect::<Vec<_>>(), "extra": extra});
            let mut ok = true;
            for p in &plain {
                if !sols.iter().any(|s| (0..6).all(|j| circ_dist(s[j], p[j]) <= 1e-9)) {
                    ok = false;
                    mon.violation("history:plain-solution-missing", "after another robot was asked for the same pose: a solution of this robot's plain solver is missing from its continuation answer", detail(json!({"missing": jf(p)})));
                    break;
                }
            }
            if sols.iter().any(|s| (0..6).any(|j| (s[j] - prev[j]).abs() > PI + 1e-9)) {
                ok = false;
                mon.violation("history:not-nearest-representative", "after another robot was asked for the same pose: an angle is not the representative nearest to previous", detail(json!({})));
            }
            for k in 1..sols.len() {
                if cost(&sols[k - 1], &prev, &[0.0; 6], 0.0) > cost(&sols[k], &prev, &[0.0; 6], 0.0) + 1e-9 {
                    ok = false;
                    mon.violation("history:not-ordered", "after another robot was asked for the same pose: the answers are not in order of distance to previous", detail(json!({"k": k})));
                    break;
                }
            }
            if ok {
                mon.held_n(1 + plain.len() as u64);
            }
            if !sols.is_empty() {
                mon.nontrivial(hash_combine(hash_f64s(&q), hash_f64s(&[rps[r].c4, rps[r].offsets[0], rps[r].a1, r as f64])));
            }
        }
    }
}

fn single(idx: u64, rng: &mut Rng, mon: &mut Mon) {
    let robot = gen_robot(rng, idx, RobotMode::NonDegenerate, 0.2);
    let rp = robot.rp;
    let mut q = joints_uniform(rng, PI);
    // a tenth of the cases: one joint of the generating vector a hair inside +-pi (1e-7 .. 1.5e-4 rad) while
    // the previous value of that joint is exactly +-0.0 or smaller than that hair (first step from a zero seed)
    let near_pi = if rng.bool(0.1) { Some((rng.usize(6), rng.sign(), rng.logu(1e-7, 1.5e-4))) } else { None };
    if let Some((j, sg, d)) = near_pi {
        q[j] = sg * (PI - d);
        mon.count("near_pi_with_zero_previous");
    }
    // one case in twenty is exactly wrist-singular (model J5 = 0): the recovered answer is assembled from the previous
    // vector and must be normalised and ranked like every other one
    let singular = near_pi.is_none() && rng.usize(20) == 0 && rp.signs[4] != 0;
    if singular {
        place_t5(&rp, &mut q, 0, 0.0);
        mon.count("exactly_wrist_singular_poses");
    }
    let from_q = near_pi.is_some() || singular || rng.bool(0.75);
    // a fifth of the solvers sits behind a stack of Tool / Base / Frame wrappers: the contract is the outermost one's
    let layers: Vec<crate::props::stack::Layer> = if rng.bool(0.2) { crate::props::stack::gen_stack(rng, 1 + rng.clone().usize(2), rng.clone().bool(0.5), &["Tool", "Base", "Frame"]) } else { vec![] };
    let _ = rng.next_u64();
    if !layers.is_empty() {
        mon.count("solvers_behind_a_wrapper_stack");
    }
    let pose = if from_q { fr_to_iso(&crate::props::stack::ref_forward(&rp, &layers, &q)) } else { gen_pose(rng, &rp, 1).iso };
    // constraints
    let cons_mode = rng.usize(4);
    let cons = if cons_mode == 0 {
        None
    } else {
        let mut from = [0.0; 6];
        let mut to = [0.0; 6];
        let all_narrow = rng.usize(8) == 0;
        if all_narrow {
            mon.count("limit_sets_with_a_single_surviving_branch");
        }
        for j in 0..6 {
            // classes whose centres stay inside the documented +-2pi range (with the sentinel the
            // centres play the role of the previous vector)
            // (wrap-around ranges written with from > pi have their centre beyond 2pi, up to 3pi)
            // (one limit set in eight windows EVERY joint narrowly around q: a single IK branch survives)
            let cls = if all_narrow { 0 } else { *rng.pick(&[1, 1, 5, 6, 2, 0, 3, 4, 9, 9]) };
            let (f, t) = limit_pair(rng, cls, q[j]);
            from[j] = f;
            to[j] = t;
        }
        let w = match cons_mode {
            1 => 0.0,
            2 => 1.0,
            _ => rng.f(),
        };
        Some(if rng.bool(0.25) { via_update_range(rng, from, to, w) } else { Constraints::new(from, to, w) })
    };
    let kin: std::sync::Arc<dyn Kinematics> = crate::props::stack::build(
        match cons {
            None => std::sync::Arc::new(OPWKinematics::new(to_params(&rp))),
            Some(c) => std::sync::Arc::new(OPWKinematics::new_with_constraints(to_params(&rp), c)),
        },
        &layers,
    );
    let w = cons.map(|c| c.sorting_weight).unwrap_or(0.0);
    let centres = cons.map(|c| c.centers).unwrap_or([0.0; 6]);
    // previous inside [-2pi,2pi]
    let pclass = if near_pi.is_some() { 5 } else if singular { 1 + rng.usize(3) } else { rng.usize(5) };
    let mut sentinel = false;
    let prev: [f64; 6] = match pclass {
        5 => {
            let (j, _, d) = near_pi.unwrap();
            let mut p = if rng.bool(0.3) { [0.0; 6] } else { q };
            p[j] = *rng.pick(&[0.0, -0.0, d * 0.3, -d * 0.3, 1e-300]);
            p
        }
        0 => q,
        1 => {
            let mut p = q;
            for j in 0..6 {
                let k = rng.int(-1, 1) as f64;
                if (p[j] + 2.0 * PI * k).abs() <= 2.0 * PI {
                    p[j] += 2.0 * PI * k;
                }
            }
            p
        }
        2 | 3 => joints_uniform(rng, 2.0 * PI),
        _ => {
            sentinel = true;
            CONSTRAINT_CENTERED
        }
    };
    // (one explicit previous vector in fifteen has a joint exactly ON the border of the documented range, +-2*pi)
    let mut prev = prev;
    if !sentinel && (pclass == 2 || pclass == 3) && rng.usize(6) == 0 {
        prev[rng.usize(6)] = rng.sign() * 2.0 * PI;
        mon.count("previous_with_a_joint_exactly_on_the_border");
    }
    let prev = prev;
    let reference = if sentinel { centres } else { prev };
    mon.count(&format!("weight_mode.{}", ["none", "by_prev", "by_constraints", "mixed"][cons_mode]));
    mon.count(&format!("prev_class.{}", ["generating", "shifted", "uniform", "uniform", "sentinel", "zero_vs_near_pi"][pclass]));

    for e in [Entry::Continuing, Entry::Continuing5] {
        let detail = |what: &str, extra: serde_json::Value| {
            json!({"robot": robot_json(&robot), "stack": crate::props::stack::stack_json(&layers), "entry": e.name(), "q": jf(&q), "pose_from_q": from_q, "prev": jf(&prev), "weight": w,
                   "limits": cons.map(|c| json!({"from": jf(&c.from), "to": jf(&c.to), "centers": jf(&c.centers)})), "clause": what, "extra": extra})
        };
        let cell = format!("{}{}:{}", if layers.is_empty() { "" } else { "stack:" }, if rp.dof == 5 { "dof5" } else { "dof6" }, e.name());
        let sols = match call(kin.as_ref(), e, &pose, &prev, 0.0) {
            Ok(s) => s,
            Err(m) => {
                mon.violation(&format!("panic:{}", cell), "continuation entry point panicked", detail("no-panic", json!({"panic": m})));
                continue;
            }
        };
        let upto = if e == Entry::Continuing5 || rp.dof == 5 { 5 } else { 6 };
        if sols.len() >= 2 {
            mon.nontrivial(hash_combine(hash_combine(robot_hash(&robot), hash_f64s(&q)), hash_combine(hash_f64s(&reference), e as u64 + 1)));
        }
        // a. nearest representative
        for s in &sols {
            let mut bad = None;
            for j in 0..upto {
                let d = (s[j] - reference[j]).abs();
                if d > PI + 1e-9 {
                    bad = Some(j);
                }
                if d > PI - 1e-3 {
                    mon.count("near_pi_from_previous");
                }
            }
            if let Some(j) = bad {
                mon.violation(&format!("not-nearest-representative:{}{}", cell, if sentinel { ":sentinel" } else { "" }), "a returned angle is not the 2pi-representative nearest to the previous angle", detail("nearest", json!({"solution": jf(s), "joint": j, "reference": jf(&reference)})));
            } else {
                mon.held();
            }
        }
        // b. cost order
        // the 5-DOF variant carries previous[5] as J6; with the sentinel that is 0.0
        let mut ordered = true;
        for k in 1..sols.len() {
            let c0 = cost(&sols[k - 1], &reference, &centres, w);
            let c1 = cost(&sols[k], &reference, &centres, w);
            if c0 > c1 + 1e-9 {
                ordered = false;
                mon.violation(&format!("not-cost-ordered:{}:{}", cell, ["none", "by_prev", "by_constraints", "mixed"][cons_mode]), "answers are not in non-decreasing order of the documented cost", detail("order", json!({"k": k, "cost_before": c0, "cost_after": c1, "answers": sols.iter().map(|s| jf(s)).collect::<Vec<_>>()})));
                break;
            }
        }
        if ordered && sols.len() >= 2 {
            mon.held();
            mon.count("ordered_lists");
        }
        // b2. near-ties: a previous vector almost exactly equidistant (L1) from two adjacent answers, nudged 2e-7 rad
        // towards the one that came later; the list for THAT previous must again be ordered (tolerance 1e-9)
        if !sentinel && w == 0.0 && sols.len() >= 2 && rng.bool(0.15) {
            let k = rng.usize(sols.len() - 1);
            let (a, b) = (sols[k], sols[k + 1]);
            let mut mid: [f64; 6] = std::array::from_fn(|j| 0.5 * (a[j] + b[j]));
            let jn = (0..6).max_by(|x, y| (a[*x] - b[*x]).abs().partial_cmp(&(a[*y] - b[*y]).abs()).unwrap()).unwrap();
            mid[jn] += 2e-7 * (b[jn] - a[jn]).signum();
            if mid.iter().all(|x| x.abs() <= 2.0 * PI) {
                if let Ok(s2) = call(kin.as_ref(), e, &pose, &mid, 0.0) {
                    mon.count("near_tie_previous_vectors");
                    let mut fine = true;
                    for i in 1..s2.len() {
                        let c0 = cost(&s2[i - 1], &mid, &centres, 0.0);
                        let c1 = cost(&s2[i], &mid, &centres, 0.0);
                        if c0 > c1 + 1e-9 {
                            fine = false;
                            mon.violation(&format!("not-cost-ordered:near-tie:{}", cell), "with a previous vector almost equidistant from two answers the list is not in non-decreasing order of the distance to previous", detail("order-near-tie", json!({"previous_used": jf(&mid), "i": i, "cost_before": c0, "cost_after": c1, "answers": s2.iter().map(|s| jf(s)).collect::<Vec<_>>()})));
                            break;
                        }
                    }
                    if fine {
                        mon.held();
                    }
                }
            }
        }
        // c. superset of plain inverse (same solver)
        // (a dof-5 robot carries the caller's J6, which the limits also judge: compare with the plain
        // 5-DOF solver given the same J6)
        let plain = match e {
            Entry::Continuing if rp.dof == 6 => kin.inverse(&pose),
            _ => kin.inverse_5dof(&pose, if sentinel { 0.0 } else { prev[5] }),
        };
        for p in &plain {
            if !sols.iter().any(|s| (0..upto).all(|j| circ_dist(s[j], p[j]) <= 1e-9)) {
                mon.violation(&format!("plain-solution-missing:{}", cell), "a solution found by the plain solver is missing from the continuation answer", detail("superset", json!({"missing": jf(p), "answers": sols.iter().map(|s| jf(s)).collect::<Vec<_>>()})));
            } else {
                mon.held();
            }
        }
        // d. previous realises the pose => first
        if from_q && (pclass == 0 || pclass == 1) && (cons_mode == 0 || cons_mode == 1) {
            let m = sing_measures(&rp, &q);
            let mm = m.wrist.min(m.elbow).min(m.shoulder);
            let compliant = cons.map(|c| c.compliant(&prev)).unwrap_or(true);
            if mm < 1e-3 || !compliant {
                mon.inconclusive("first-answer:near-singular-or-previous-out-of-limits");
            } else {
                let tol = if mm >= 1e-2 { 1e-6 } else { 1e-4 };
                match sols.first() {
                    Some(s) if (0..upto).all(|j| (s[j] - prev[j]).abs() <= tol) => {
                        mon.held();
                        mon.count("previous_came_back_first");
                    }
                    _ => mon.violation(&format!("previous-not-first:{}", cell), "previous joints realise the pose but are not the first answer", detail("first", json!({"answers": sols.iter().map(|s| jf(s)).collect::<Vec<_>>()}))),
                }
            }
        }
    }
    // the same contract through Frame::forward_transformed (identity and small frames): it answers for the moved pose
    // with the caller's previous vector - nearest representative, cost order, and every plain solution of the moved pose
    if !sentinel && w == 0.0 && rng.usize(10) == 0 {
        let ident = rng.bool(0.5);
        let f = if ident { Fr::id() } else { Fr { r: axis_angle([0.0, 0.0, 1.0], rng.range(-0.2, 0.2)), p: [rng.range(-0.05, 0.05), rng.range(-0.05, 0.05), rng.range(-0.05, 0.05)] } };
        let frame = rs_opw_kinematics::frame::Frame { robot: kin.clone(), frame: fr_to_iso(&f) };
        let (sols, moved) = frame.forward_transformed(&q, &prev);
        // (a dof-5 robot carries the caller's J6, which the limits also judge: compare with the 5-DOF solver given that J6)
        let plain = if rp.dof == 6 { kin.inverse(&moved) } else { kin.inverse_5dof(&moved, prev[5]) };
        mon.count("forward_transformed_calls");
        let upto = if rp.dof == 5 { 5 } else { 6 };
        let mut fine = true;
        for s in &sols {
            if (0..upto).any(|j| (s[j] - prev[j]).abs() > PI + 1e-9) {
                fine = false;
            }
        }
        for k in 1..sols.len() {
            if cost(&sols[k - 1], &prev, &centres, 0.0) > cost(&sols[k], &prev, &centres, 0.0) + 1e-9 {
                fine = false;
            }
        }
        for p in &plain {
            if !sols.iter().any(|s| (0..upto).all(|j| circ_dist(s[j], p[j]) <= 1e-9)) {
                fine = false;
            }
        }
        if !fine {
            mon.violation(&format!("forward-transformed:continuation-contract:{}", if ident { "identity-frame" } else { "small-frame" }), "Frame::forward_transformed does not return the moved pose's solutions as nearest representatives in cost order", json!({"robot": robot_json(&robot), "stack": crate::props::stack::stack_json(&layers), "q": jf(&q), "prev": jf(&prev), "frame": {"r": f.r, "p": f.p}, "answers": sols.iter().map(|s| jf(s)).collect::<Vec<_>>(), "plain": plain.iter().map(|s| jf(s)).collect::<Vec<_>>()}));
        } else {
            mon.held();
        }
    }
    if idx < 2 {
        mon.sample(json!({"kind": "single_call", "robot": robot_json(&robot), "prev": jf(&prev), "weight": w}));
    }
}

/// The same contract through the collision-aware robot (its filter runs on the rayon pool): nearest
/// representative, cost order, and a free previous posture that realises the pose comes back first.
fn with_shape(idx: u64, rng: &mut Rng, mon: &mut Mon) {
    use crate::cell::Cell;
    let mut cell = Cell::generate(rng, idx, true, true, false);
    let free = cell.build();
    let mut q = None;
    for _ in 0..20 {
        let t = crate::props::c10::gen_posture(rng);
        let c = cell.robot.rp.from_theta(&t);
        let c: [f64; 6] = std::array::from_fn(|j| c[j].max(-3.0).min(3.0));
        if !free.collides(&c) {
            q = Some(c);
            break;
        }
    }
    let q = match q {
        Some(q) => q,
        None => {
            mon.inconclusive("with_shape:no-free-posture");
            return;
        }
    };
    // obstacles on other IK branches of the pose (so that the filter has something to remove)
    let pose = free.forward(&q);
    let branches = free.inverse(&pose);
    let others: Vec<[f64; 6]> = branches.iter().filter(|b| (0..6).any(|j| circ_dist(b[j], q[j]) > 1e-3)).cloned().collect();
    for _ in 0..rng.usize(3) {
        if !others.is_empty() {
            let b = others[rng.usize(others.len())];
            let (target, gap) = (1 + rng.usize(5), rng.range(-0.03, 0.01));
            cell.add_designed_obstacle(rng, &b, target, gap);
        } else {
            cell.add_random_obstacle(rng);
        }
        // the generating posture itself stays free
        if cell.build().collides(&q) {
            cell.env.pop();
        }
    }
    let robot = cell.build();
    let prev_is_q = rng.bool(0.6);
    let prev = if prev_is_q { q } else { joints_uniform(rng, 3.0) };
    let centres = cell.constraints.centers;
    let w = cell.constraints.sorting_weight;
    let rp = cell.robot.rp;
    for e in [Entry::Continuing, Entry::Continuing5] {
        let detail = |what: &str, extra: serde_json::Value| json!({"cell": cell.json(), "entry": e.name(), "q": jf(&q), "prev": jf(&prev), "clause": what, "extra": extra});
        let sols = match call(&robot, e, &pose, &prev, 0.0) {
            Ok(s) => s,
            Err(m) => {
                mon.violation(&format!("with-shape:panic:{}", e.name()), "continuation entry point of the robot with shape panicked", detail("no-panic", json!({"panic": m})));
                continue;
            }
        };
        mon.count("with_shape.calls");
        if sols.len() >= 3 {
            mon.count("with_shape.lists_of_three_or_more");
            mon.nontrivial(hash_combine(hash_combine(robot_hash(&cell.robot), hash_f64s(&q)), hash_combine(hash_f64s(&prev), e as u64 + 11)));
        }
        let upto = if e == Entry::Continuing5 || rp.dof == 5 { 5 } else { 6 };
        for s in &sols {
            if (0..upto).any(|j| (s[j] - prev[j]).abs() > PI + 1e-9) {
                mon.violation(&format!("with-shape:not-nearest-representative:{}", e.name()), "a returned angle is not the 2pi-representative nearest to the previous angle", detail("nearest", json!({"solution": jf(s)})));
            } else {
                mon.held();
            }
        }
        let mut ordered = true;
        for k in 1..sols.len() {
            let (c0, c1) = (cost(&sols[k - 1], &prev, &centres, w), cost(&sols[k], &prev, &centres, w));
            if c0 > c1 + 1e-9 {
                ordered = false;
                mon.violation(&format!("with-shape:not-cost-ordered:{}", e.name()), "answers of the robot with shape are not in non-decreasing order of the documented cost", detail("order", json!({"k": k, "cost_before": c0, "cost_after": c1, "answers": sols.iter().map(|s| jf(s)).collect::<Vec<_>>()})));
                break;
            }
        }
        if ordered {
            mon.held();
        }
        if prev_is_q {
            let m = sing_measures(&rp, &q);
            if m.wrist.min(m.elbow).min(m.shoulder) < 1e-2 || !cell.constraints.compliant(&q) || robot.collides(&q) {
                mon.inconclusive("with_shape:first-answer:singular-or-illegal-previous");
            } else {
                match sols.first() {
                    Some(s) if (0..upto).all(|j| (s[j] - prev[j]).abs() <= 1e-6) => {
                        mon.held();
                        mon.count("with_shape.previous_came_back_first");
                    }
                    _ => mon.violation(&format!("with-shape:previous-not-first:{}", e.name()), "previous joints realise the pose, are free and legal, but are not the first answer", detail("first", json!({"answers": sols.iter().map(|s| jf(s)).collect::<Vec<_>>()}))),
                }
            }
        }
    }
}

fn trajectory(idx: u64, rng: &mut Rng, mon: &mut Mon) {
    let robot = gen_robot(rng, idx, RobotMode::NonDegenerate, 0.0);
    let rp = robot.rp;
    let kin = OPWKinematics::new(to_params(&rp));
    let steps = 200 + rng.usize(1300);
    // q_j(t) = c_j + sum_i a_ji sin(w_ji t + phi_ji), |c|+sum|a| <= 2pi - 0.05, max speed <= 0.03/step
    let mut c = [0.0; 6];
    let mut a = [[0.0; 3]; 6];
    let mut om = [[0.0; 3]; 6];
    let mut ph = [[0.0; 3]; 6];
    for j in 0..6 {
        let amp_total = rng.range(0.5, 2.0 * PI - 0.1);
        let split = [rng.f() + 0.1, rng.f() + 0.1, rng.f() + 0.1];
        let ssum: f64 = split.iter().sum();
        for i in 0..3 {
            a[j][i] = amp_total * split[i] / ssum;
            ph[j][i] = rng.range(0.0, 2.0 * PI);
        }
        c[j] = rng.range(-1.0, 1.0) * (2.0 * PI - 0.05 - amp_total);
        if j == 2 {
            // keep the elbow away from its singularity: t3 + psi3 stays inside (0.15, pi-0.15) (+pi)
            let half = if rng.bool(0.5) { 0.0 } else { PI };
            let lo = -rp.psi3() + half + 0.15;
            let hi = -rp.psi3() + half + PI - 0.15;
            let amp3 = rng.range(0.2, (hi - lo) / 2.0);
            let mid_t = rng.range(lo + amp3, hi - amp3);
            for i in 0..3 {
                a[j][i] = amp3 * split[i] / ssum;
            }
            c[j] = (mid_t + rp.offsets[2]) * rp.signs[2] as f64;
            // bring the centre into [-2pi+amp, 2pi-amp] by whole turns
            while c[j] > 2.0 * PI - amp3 {
                c[j] -= 2.0 * PI;
            }
            while c[j] < -2.0 * PI + amp3 {
                c[j] += 2.0 * PI;
            }
        }
        // speed bound: sum a_i w_i <= 0.03
        let budget = 0.03;
        let wsplit = [rng.f() + 0.05, rng.f() + 0.05, rng.f() + 0.05];
        let wsum: f64 = wsplit.iter().sum();
        for i in 0..3 {
            om[j][i] = budget * (wsplit[i] / wsum) / a[j][i];
        }
    }
    let qt = |t: f64| -> [f64; 6] { std::array::from_fn(|j| c[j] + (0..3).map(|i| a[j][i] * (om[j][i] * t + ph[j][i]).sin()).sum::<f64>()) };
    let band = 0.01f64.to_radians();
    let mut prev = qt(0.0);
    let mut prev_true = prev;
    let mut prev_in_band = true; // do not check increments on the first step
    let mut tracked = 0usize;
    let mut max_err: f64 = 0.0;
    let detail = |what: &str, k: usize, extra: serde_json::Value| json!({"robot": robot_json(&robot), "trajectory": {"c": jf(&c), "a": a, "omega": om, "phase": ph, "steps": steps}, "step": k, "clause": what, "extra": extra});
    for k in 0..steps {
        let q = qt(k as f64);
        let m = sing_measures(&rp, &q);
        if m.elbow < 0.1 || m.shoulder < 0.1 {
            mon.count("trajectories_truncated");
            break;
        }
        let pose = fr_to_iso(&fk(&rp, &q));
        let sols = kin.inverse_continuing(&pose, &prev);
        let t = rp.theta(&q);
        let d0 = circ_dist(t[4], 0.0);
        let dpi = circ_dist(t[4], PI);
        let in_band = d0.min(dpi) < band * 1.5; // a little wider than the solver's band: ambiguous zone
        let first = match sols.first() {
            Some(s) => *s,
            None => {
                mon.violation("trajectory:no-answer", "continuation IK returned nothing on a trajectory pose", detail("track", k, json!({"q": jf(&q), "prev": jf(&prev)})));
                return;
            }
        };
        let mut ok = true;
        let mut why = "";
        if !in_band {
            for j in 0..6 {
                let e = circ_dist(first[j], q[j]);
                max_err = max_err.max(e);
                if e > 1e-6 {
                    ok = false;
                    why = "position";
                }
            }
            if ok && !prev_in_band {
                for j in 0..6 {
                    let inc = (first[j] - prev[j]) - (q[j] - prev_true[j]);
                    if inc.abs() > 2e-6 {
                        ok = false;
                        why = "increment";
                    }
                }
            }
        } else {
            mon.count("steps_inside_wrist_band");
            for j in [0usize, 1, 2, 4] {
                if circ_dist(first[j], q[j]) > 1e-4 {
                    ok = false;
                    why = "position-in-band";
                }
            }
            let tf = rp.theta(&first);
            let (ca, cb) = if d0 < dpi { (tf[3] + tf[5], t[3] + t[5]) } else { (tf[3] - tf[5], t[3] - t[5]) };
            if circ_dist(ca, cb) > 1e-3 {
                ok = false;
                why = "j4j6-combination-in-band";
            }
        }
        if !ok {
            mon.violation(&format!("trajectory:lost-track:{}", why), "first continuation answer left the trajectory (branch switch / jump)", detail("track", k, json!({"q": jf(&q), "prev": jf(&prev), "first": jf(&first), "in_band": in_band})));
            return;
        }
        mon.held();
        tracked += 1;
        for j in 0..6 {
            if (q[j].abs() - PI) * (prev_true[j].abs() - PI) < 0.0 {
                mon.count("pi_crossings_tracked");
            }
        }
        prev_in_band = in_band;
        prev_true = q;
        prev = first;
    }
    mon.count_n("trajectory_steps_tracked", tracked as u64);
    mon.max("trajectory_tracking_error", max_err);
    if tracked >= 50 {
        mon.nontrivial(hash_combine(robot_hash(&robot), hash_f64s(&c)));
    }
    if idx < 1 {
        mon.sample(json!({"kind": "trajectory", "robot": robot_json(&robot), "steps_tracked": tracked, "centre": jf(&c)}));
    }
}
