//! C05 — wrist singularity is detected geometrically and does not make J4/J6 jump.

use crate::gen::*;
use crate::props::ik::place_t5;
use crate::props::{robot_hash, robot_json};
use crate::refmodel::*;
use crate::report::{hash_combine, hash_f64s, jf, Mon};
use crate::rng::Rng;
use crate::{Kind, Prop, Spec, Tier};
use rs_opw_kinematics::kinematic_traits::Kinematics;
use rs_opw_kinematics::kinematics_impl::OPWKinematics;
use serde_json::json;
use std::f64::consts::PI;

pub fn prop() -> Prop {
    Prop { id: "C05", spec, run_case, finalize: None }
}

fn spec() -> Spec {
    Spec {
        kinds: vec![
            Kind { name: "detection", quick: 1_000_000, thorough: 20_000_000, serial: false },
            Kind { name: "continuity", quick: 500_000, thorough: 10_000_000, serial: false },
            Kind { name: "continuity_with_shape", quick: 3_000, thorough: 100_000, serial: false },
        ],
        rule: "detection: non-degenerate robot (64 sign patterns, zero / right-angle / uniform offsets) x q with model angle t5 = k*pi + delta, k=-2..2, delta = +-{0,1e-9,0.5,0.9}*band (must be reported singular) or +-{1.1,2,100}*band (must not), band = 0.01 degree; expectation decided geometrically from the angle between the J4 axis and the J6 axis of the reference chain. continuity: t5 = 0 exactly, requested pose = FK(q); (1) previous = q: first continuation answer must equal q; (2) previous = q with J4,J6 shifted by (+e,-e'): an answer on the same arm with J5 at the singularity must have moved J4 and J6 by the same model-angle amount. Evaluated only when the arm sensitivity ||J_wc^-1||_F <= 3 rad/m and no other IK branch is within 0.02 rad of singular. non-trivial = conclusive case; distinct = hash(robot, q) Workload additions: clause 1c (CONSTRAINT_CENTERED with limits centred on q), clause 2b (previous J5 0.3..2 degrees outside the band); solvers built through either constructor; kind continuity_with_shape = clause 1 through KinematicsWithShape, 12 repeated calls per scene. Rounds 7-9: clause 1d (pose inside the band), 2c (previous J5 inside the band), postures upright in the X-Z plane; continuity clauses evaluated for arms of 0.3..12 m reach only. Round 10: clause 1f - the singular pose handed over with the negated quaternion.",
        assumptions: vec![
            "band edge: cases whose geometric deviation is within 1% of the band are not generated / inconclusive",
            "continuity tolerance 4*S + 1.5e-6 per joint with S = 1.25e-7 * ||J_wc^-1||_F (sensitivity of the arm to the solver's 0.125 um singularity shift) plus the solver's stated angular accuracy of 1e-6 rad",
            "the bound 3 rad/m on ||J_wc^-1||_F is the property's 'stated bound' as calibrated in DESIGN.md",
        ],
        minimums: vec![("oracle_evals", 1_000_000, 20_000_000), ("detection.expected_singular", 300_000, 6_000_000), ("continuity.evaluated", 100_000, 2_000_000)],
    }
}

const BAND: f64 = 0.01 * PI / 180.0;

/// Clause "the first continuation answer equals the previous joints" through the collision-aware robot
/// (its filter runs on the rayon pool): repeated calls, since an order-destroying filter shows only under
/// some schedules.
fn continuity_with_shape(idx: u64, rng: &mut Rng, mon: &mut Mon) {
    use crate::cell::Cell;
    let mut cell = Cell::generate(rng, idx, true, true, false);
    let rp = cell.robot.rp;
    let free = cell.build();
    let mut found = None;
    for _ in 0..20 {
        let t = crate::props::c10::gen_posture(rng);
        let mut q = rp.from_theta(&t);
        place_t5(&rp, &mut q, 0, 0.0);
        let m = sing_measures(&rp, &q);
        if q.iter().all(|x| x.abs() < 3.2) && m.elbow >= 1e-2 && m.shoulder >= 1e-2 && wc_sensitivity(&rp, &q) <= 3.0 && !free.collides(&q) {
            found = Some(q);
            break;
        }
    }
    let q = match found {
        Some(q) => q,
        None => {
            mon.inconclusive("continuity_with_shape:no-suitable-posture");
            return;
        }
    };
    let sens = wc_sensitivity(&rp, &q);
    // no other branch of the (flange) pose may be near-singular
    let bare = OPWKinematics::new(to_params(&rp));
    let flange = fk(&rp, &q);
    let tilted = fr_to_iso(&flange.mul(&Fr::new(rotx(1e-3), [0.0; 3])));
    let all = bare.inverse(&tilted);
    let mut same_arm = 0;
    for s in &all {
        let on_arm = (0..3).all(|j| circ_dist(s[j], q[j]) < 1e-2);
        if on_arm {
            same_arm += 1;
        } else if rp.theta(s)[4].sin().abs() < 0.02 {
            mon.inconclusive("continuity_with_shape:second-branch-near-singular");
            return;
        }
    }
    if same_arm == 0 {
        mon.inconclusive("continuity_with_shape:arm-not-found-in-tilted-solve");
        return;
    }
    // obstacles on other branches, so that the filter has something to remove
    let pose = free.forward(&q);
    let others: Vec<[f64; 6]> = free.inverse(&pose).into_iter().filter(|b| (0..3).any(|j| circ_dist(b[j], q[j]) > 1e-2)).collect();
    for _ in 0..rng.usize(3) {
        if let Some(b) = others.get(rng.usize(others.len().max(1))) {
            let (target, gap) = (1 + rng.usize(5), rng.range(-0.03, 0.01));
            cell.add_designed_obstacle(rng, b, target, gap);
            if cell.build().collides(&q) {
                cell.env.pop();
            }
        }
    }
    let robot = cell.build();
    if robot.collides(&q) || !cell.constraints.compliant(&q) {
        mon.inconclusive("continuity_with_shape:posture-not-legal");
        return;
    }
    let s_tol = 4.0 * 1.25e-7 * sens + 1.5e-6;
    mon.count("continuity_with_shape.evaluated");
    for rep in 0..12 {
        let sols = robot.inverse_continuing(&pose, &q);
        mon.count("continuity_with_shape.calls");
        match sols.first() {
            Some(s) if (0..6).all(|j| (s[j] - q[j]).abs() <= s_tol) => mon.held(),
            _ => {
                mon.violation("continuity:with-shape:first-answer-not-previous", "wrist-singular pose, the previous joints realise it and are free and legal, but the first continuation answer of the robot with shape is not the previous joints", json!({"cell": cell.json(), "q": jf(&q), "repeat": rep, "sensitivity": sens, "answers": sols.iter().map(|s| jf(s)).collect::<Vec<_>>()}));
                return;
            }
        }
    }
    mon.nontrivial(hash_combine(robot_hash(&cell.robot), hash_f64s(&q)));
}

fn run_case(kind: &str, idx: u64, rng: &mut Rng, mon: &mut Mon, _tier: Tier) {
    if kind == "continuity_with_shape" {
        return continuity_with_shape(idx, rng, mon);
    }
    if kind == "detection" {
        detection(idx, rng, mon)
    } else {
        continuity(idx, rng, mon)
    }
}

fn detection(idx: u64, rng: &mut Rng, mon: &mut Mon) {
    let robot = gen_robot(rng, idx, RobotMode::NonDegenerate, 0.0);
    let rp = robot.rp;
    let kin = make_solver(rng, &rp);
    let mut q = joints_uniform(rng, PI);
    let k = rng.int(-2, 2) as i32;
    let inside = rng.bool(0.5);
    let f = if inside { *rng.pick(&[0.0, 1e-9 / BAND, 0.5, 0.9]) } else { *rng.pick(&[1.1, 2.0, 100.0]) };
    let side = rng.sign();
    let delta = side * f * BAND;
    place_t5(&rp, &mut q, k, delta);
    // a quarter of the cases place the RAW joint value next to a multiple of pi instead: with an
    // offset that is not a multiple of pi this must NOT be reported singular
    let raw_placed = rng.bool(0.25);
    if raw_placed {
        q[4] = k as f64 * PI + delta;
        mon.count("detection.raw_j5_placed");
    }
    // geometric oracle: J4 axis = z of link-4 frame, J6 axis = z of link-6 frame
    let fr = chain(&rp, &q);
    let a = vec_angle(fr[3].z(), fr[5].z());
    let dev = a.min(PI - a);
    let expected = if dev < 0.99 * BAND {
        true
    } else if dev > 1.01 * BAND {
        false
    } else {
        mon.inconclusive("detection:band-edge");
        return;
    };
    let got = kin.kinematic_singularity(&q).is_some();
    let off_class = if rp.offsets[4] == 0.0 { "zero_j5_offset" } else { "nonzero_j5_offset" };
    let sgn = if rp.signs[4] < 0 { "neg_j5_sign" } else { "pos_j5_sign" };
    let side_s = if delta > 0.0 { "pos_side" } else if delta < 0.0 { "neg_side" } else { "exact" };
    mon.count(if expected { "detection.expected_singular" } else { "detection.expected_regular" });
    mon.count(&format!("detection.cell.k{}.{}.{}.{}", k, side_s, off_class, sgn));
    if got != expected {
        mon.violation(
            &format!("detection:{}:{}:{}:{}", if expected { "missed" } else { "false-positive" }, off_class, sgn, side_s),
            "kinematic_singularity disagrees with the geometric collinearity of the J4 and J6 axes",
            json!({"robot": robot_json(&robot), "q": jf(&q), "k": k, "delta": delta, "axis_deviation": dev, "expected_singular": expected, "reported": got}),
        );
    } else {
        mon.held();
        mon.nontrivial(hash_combine(robot_hash(&robot), hash_f64s(&q)));
    }
    if idx < 2 {
        mon.sample(json!({"kind": "detection", "robot": robot_json(&robot), "q": jf(&q), "axis_deviation": dev, "expected_singular": expected}));
    }
}

/// Frobenius norm of the inverse of the 3x3 wrist-centre Jacobian wrt (t1,t2,t3)
pub fn wc_sensitivity(rp: &RParams, q: &[f64; 6]) -> f64 {
    let fr = chain(rp, q);
    let wc = fr[4].p;
    let ax = [col(&fr[0].r, 2), col(&fr[1].r, 1), col(&fr[2].r, 1)];
    let o = [fr[0].p, fr[1].p, fr[2].p];
    let mut j = [[0.0; 3]; 3];
    for i in 0..3 {
        let c = cross(ax[i], sub(wc, o[i]));
        for r in 0..3 {
            j[r][i] = c[r];
        }
    }
    let d = det(&j);
    if d.abs() < 1e-300 {
        return f64::INFINITY;
    }
    // inverse via adjugate
    let mut inv = [[0.0; 3]; 3];
    for r in 0..3 {
        for c in 0..3 {
            let (r1, r2) = ((r + 1) % 3, (r + 2) % 3);
            let (c1, c2) = ((c + 1) % 3, (c + 2) % 3);
            inv[c][r] = (j[r1][c1] * j[r2][c2] - j[r1][c2] * j[r2][c1]) / d;
        }
    }
    inv.iter().flatten().map(|x| x * x).sum::<f64>().sqrt()
}

fn continuity(idx: u64, rng: &mut Rng, mon: &mut Mon) {
    let mut robot = gen_robot(rng, idx, RobotMode::NonDegenerate, 0.0);
    // larger arms are better conditioned: scale half of the robots by 1..4 so that more cases
    // fall under the sensitivity bound
    if rng.bool(0.6) {
        let k = rng.range(1.0, 4.0);
        let p = &mut robot.rp;
        p.a1 *= k;
        p.a2 *= k;
        p.b *= k;
        p.c1 *= k;
        p.c2 *= k;
        p.c3 *= k;
        p.c4 *= k;
    }
    let rp = robot.rp;
    let kin = make_solver(rng, &rp);
    let mut q = joints_uniform(rng, PI);
    // a tenth of the postures has the upper arm upright in the X-Z plane (model J1 = 0 or pi, model J2 = 0): a shift of
    // the pose along X does not lift the singularity there in first order
    if rng.bool(0.1) && rp.signs[0] != 0 && rp.signs[1] != 0 {
        let t1 = if rng.bool(0.5) { 0.0 } else { PI };
        q[0] = (t1 + rp.offsets[0]) * rp.signs[0] as f64;
        q[1] = (0.0 + rp.offsets[1]) * rp.signs[1] as f64;
        mon.count("continuity.upright_in_the_xz_plane");
    }
    place_t5(&rp, &mut q, 0, 0.0);
    let sens = wc_sensitivity(&rp, &q);
    mon.count("continuity.generated");
    // (the solver works with ABSOLUTE tolerances - 1e-6 m, a 0.125 um singularity shift: the continuity clauses are
    // calibrated for arms of 0.3 .. 12 m reach; gantry-sized or millimetre-sized copies are outside that calibration)
    if !(rp.reach() >= 0.3 && rp.reach() <= 12.0) {
        mon.inconclusive("continuity:robot-scale-outside-the-calibrated-range");
        return;
    }
    let bound: f64 = std::env::var("C05_SENS_BOUND").ok().and_then(|s| s.parse().ok()).unwrap_or(3.0);
    mon.count(&format!("continuity.sens_bucket.{}", (sens.min(99.0)) as u64));
    if !(sens <= bound) {
        mon.inconclusive("continuity:arm-sensitivity-above-bound");
        return;
    }
    let m = sing_measures(&rp, &q);
    if m.elbow < 1e-2 || m.shoulder < 1e-2 {
        mon.inconclusive("continuity:elbow-or-shoulder-near-singular");
        return;
    }
    let target = fk(&rp, &q);
    let pose = fr_to_iso(&target);
    // other branches must not be near-singular: tilt the pose by 1e-3 rad about the tool x axis
    let tilted = fr_to_iso(&target.mul(&Fr::new(rotx(1e-3), [0.0; 3])));
    let all = kin.inverse(&tilted);
    let mut same_arm = 0;
    for s in &all {
        let t = rp.theta(s);
        let on_arm = (0..3).all(|j| circ_dist(s[j], q[j]) < 1e-2);
        if on_arm {
            same_arm += 1;
        } else if t[4].sin().abs() < 0.02 {
            mon.inconclusive("continuity:second-branch-near-singular");
            return;
        }
    }
    if same_arm == 0 {
        mon.inconclusive("continuity:arm-not-found-in-tilted-solve");
        return;
    }
    // 4*S for the arm's reaction to the singularity shift, plus the solver's own angular accuracy
    // (1e-6 rad): at an exactly singular pose the raw J4/J6 sum is only determined to that accuracy
    // (observed 5e-7 once in 5e5 cases), and the redistributed J4, J6 inherit it
    let s_tol = 4.0 * 1.25e-7 * sens + 1.5e-6;
    let signs = format!("{}{}", if rp.signs[3] < 0 { "-" } else { "+" }, if rp.signs[5] < 0 { "-" } else { "+" });
    let off_class = if rp.offsets[4] == 0.0 { "zero_j5_offset" } else { "nonzero_j5_offset" };
    mon.count("continuity.evaluated");
    mon.count(&format!("continuity.cell.signs46={}.{}", signs, off_class));
    mon.max("continuity.sensitivity", sens);
    let detail = |what: &str, prev: &[f64; 6], answers: &Vec<[f64; 6]>, extra: serde_json::Value| {
        json!({"robot": robot_json(&robot), "q": jf(&q), "previous": jf(prev), "sensitivity": sens, "clause": what, "answers": answers.iter().map(|s| jf(s)).collect::<Vec<_>>(), "extra": extra})
    };
    // clause 1: previous realises the pose -> first answer equals previous
    let sols = kin.inverse_continuing(&pose, &q);
    match sols.first() {
        Some(s) if (0..6).all(|j| (s[j] - q[j]).abs() <= s_tol) => {
            mon.held();
            mon.nontrivial(hash_combine(robot_hash(&robot), hash_f64s(&q)));
        }
        _ => {
            mon.count(&format!("continuity.fail1_bucket.{}", (sens.min(99.0)) as u64));
            mon.violation(&format!("continuity:first-answer-not-previous:signs46={}:{}", signs, off_class), "wrist-singular pose, previous realises it, but the first continuation answer is not the previous joints", detail("first-is-previous", &q, &sols, json!({"tolerance": s_tol})))
        }
    }
    // clause 1f: the same pose handed over with the NEGATED quaternion (the other representative of the same rotation, as
    // products of rotations across hemispheres or an axis-angle of angle - 2pi produce it): same answer
    if rng.bool(0.5) {
        let neg = nalgebra::Isometry3::from_parts(pose.translation, nalgebra::Unit::new_unchecked(-pose.rotation.into_inner()));
        let sols = kin.inverse_continuing(&neg, &q);
        mon.count("continuity.negated_quaternion");
        match sols.first() {
            Some(s) if (0..6).all(|j| (s[j] - q[j]).abs() <= s_tol) => mon.held(),
            _ => mon.violation(&format!("continuity:first-answer-not-previous:negated-quaternion:signs46={}", signs), "wrist-singular pose given by the negated quaternion, previous realises it, but the first continuation answer is not the previous joints", detail("first-is-previous-negated-quaternion", &q, &sols, json!({"tolerance": s_tol}))),
        }
    }
    // clause 1b: the previous joints realise the pose through representatives wound by whole turns
    // (inside the documented +-2pi range): they must still come back first
    {
        let mut prev = q;
        let mut wound = false;
        for j in [3usize, 5, 0] {
            let k = if q[j] > 0.0 { -1.0 } else { 1.0 };
            if rng.bool(0.8) && (q[j] + 2.0 * PI * k).abs() <= 2.0 * PI {
                prev[j] = q[j] + 2.0 * PI * k;
                wound = true;
            }
        }
        if wound {
            let sols = kin.inverse_continuing(&pose, &prev);
            mon.count("continuity.wound_previous");
            match sols.first() {
                Some(s) if (0..6).all(|j| (s[j] - prev[j]).abs() <= s_tol) => mon.held(),
                _ => mon.violation(&format!("continuity:first-answer-not-previous:wound-by-turns:signs46={}", signs), "wrist-singular pose, previous (given by representatives a whole turn away) realises it, but the first continuation answer is not the previous joints", detail("first-is-previous-wound", &prev, &sols, json!({"tolerance": s_tol}))),
            }
        }
    }
    // clause 2: previous with J4,J6 shifted by (+e,-e'): recovered answer moves J4 and J6 by the same model amount
    let e1 = rng.range(-1.0, 1.0);
    let e2 = rng.range(-1.0, 1.0);
    let mut prev = q;
    prev[3] += e1;
    prev[5] -= e2;
    let sols = kin.inverse_continuing(&pose, &prev);
    let mut found = false;
    let mut best = f64::INFINITY;
    for s in &sols {
        let on_arm = (0..3).all(|j| circ_dist(s[j], q[j]) <= 1e-6 + s_tol) && circ_dist(s[4], q[4]) <= 1e-3;
        if !on_arm {
            continue;
        }
        let d4 = wrap(s[3] - prev[3]) * rp.signs[3] as f64;
        let d6 = wrap(s[5] - prev[5]) * rp.signs[5] as f64;
        let diff = circ_dist(d4, d6);
        best = best.min(diff);
        if diff <= 1e-6 {
            found = true;
        }
    }
    if found {
        mon.held();
    } else {
        mon.count(&format!("continuity.fail2_bucket.{}", (sens.min(99.0)) as u64));
        mon.violation(&format!("continuity:j4-j6-unequal-move:signs46={}:{}", signs, off_class), "no answer on the previous arm moves J4 and J6 by the same amount from their previous values", detail("equal-move", &prev, &sols, json!({"smallest_mismatch": if best.is_finite() { json!(best) } else { json!("no answer on the arm") }})));
    }
    // clause 2b: the trajectory ENTERS the singularity: the previous J5 is 0.3 .. 2 degrees off (outside the band),
    // J4 and J6 as before; the recovered answer still moves J4 and J6 by the same model amount
    {
        let mut prev = q;
        prev[3] += rng.range(-1.0, 1.0);
        prev[5] -= rng.range(-1.0, 1.0);
        prev[4] += rng.sign() * rng.range(0.3f64, 2.0).to_radians();
        let sols = kin.inverse_continuing(&pose, &prev);
        let mut found = false;
        let mut best = f64::INFINITY;
        for s in &sols {
            let on_arm = (0..3).all(|j| circ_dist(s[j], q[j]) <= 1e-6 + s_tol) && circ_dist(s[4], q[4]) <= 1e-3;
            if !on_arm {
                continue;
            }
            let d4 = wrap(s[3] - prev[3]) * rp.signs[3] as f64;
            let d6 = wrap(s[5] - prev[5]) * rp.signs[5] as f64;
            let diff = circ_dist(d4, d6);
            best = best.min(diff);
            if diff <= 1e-6 {
                found = true;
            }
        }
        mon.count("continuity.entering_the_singularity");
        if found {
            mon.held();
        } else {
            mon.violation(&format!("continuity:j4-j6-unequal-move:entering:signs46={}", signs), "previous J5 just outside the band, requested pose exactly singular: no answer on the previous arm moves J4 and J6 by the same amount", detail("equal-move-entering", &prev, &sols, json!({"smallest_mismatch": if best.is_finite() { json!(best) } else { json!("no answer on the arm") }})));
        }
    }
    // clause 1d: the requested pose is inside the band without being exactly singular (model J5 = +-1e-7 .. 1.5e-4 rad,
    // either sign) and the previous joints realise it: the first answer stays on the posture - J1, J2, J3, J5 within
    // 1e-4 rad and the model-angle sum J4+J6 within 1e-3 rad (inside the band only that combination is determined)
    {
        let mut qb = q;
        place_t5(&rp, &mut qb, 0, rng.sign() * rng.logu(1e-7, 1.5e-4));
        let pose_b = fr_to_iso(&fk(&rp, &qb));
        let sols = kin.inverse_continuing(&pose_b, &qb);
        mon.count("continuity.pose_inside_the_band");
        let tq = rp.theta(&qb);
        let ok = match sols.first() {
            Some(s) => {
                let ts = rp.theta(s);
                [0usize, 1, 2, 4].iter().all(|j| circ_dist(s[*j], qb[*j]) <= 1e-4) && circ_dist(ts[3] + ts[5], tq[3] + tq[5]) <= 1e-3
            }
            None => false,
        };
        if ok {
            mon.held();
        } else {
            mon.violation(&format!("continuity:first-answer-leaves-the-posture:pose-inside-band:signs46={}", signs), "pose inside the wrist band (not exactly singular), previous realises it, but the first continuation answer is on another posture / J4+J6 jumped", detail("first-stays-inside-band", &qb, &sols, json!({})));
        }
    }
    // clause 1e: the same singular pose asked through Frame::forward_transformed (identity frame) with a previous vector
    // that differs from qs in J4 / J6 (same pose): what comes back is what the solver answers for THAT previous vector
    if rng.usize(4) == 0 && rp.signs[3] != 0 && rp.signs[5] != 0 {
        let e = rng.range(-1.0, 1.0);
        let mut pv = q;
        pv[3] += e * rp.signs[3] as f64;
        pv[5] -= e * rp.signs[5] as f64;
        let frame = rs_opw_kinematics::frame::Frame { robot: std::sync::Arc::new(kin), frame: nalgebra::Isometry3::identity() };
        let (sols, _) = frame.forward_transformed(&q, &pv);
        mon.count("continuity.through_forward_transformed");
        match sols.first() {
            Some(s) if (0..6).all(|j| (s[j] - pv[j]).abs() <= s_tol) => mon.held(),
            _ => mon.violation(&format!("continuity:first-answer-not-previous:forward-transformed:signs46={}", signs), "wrist-singular pose through Frame::forward_transformed: the previous joints realise it but are not the first answer", detail("first-is-previous-through-frame", &pv, &sols, json!({"tolerance": s_tol}))),
        }
    }
    // clause 2c: as 2b, but the previous J5 is INSIDE the band without being zero (a trajectory sampled finer than
    // the band): 1e-7 .. 1.5e-4 rad on either side
    {
        let mut prev = q;
        prev[3] += rng.range(-1.0, 1.0);
        prev[5] -= rng.range(-1.0, 1.0);
        prev[4] += rng.sign() * rng.logu(1e-7, 1.5e-4);
        let sols = kin.inverse_continuing(&pose, &prev);
        let mut found = false;
        let mut best = f64::INFINITY;
        for s in &sols {
            let on_arm = (0..3).all(|j| circ_dist(s[j], q[j]) <= 1e-6 + s_tol) && circ_dist(s[4], q[4]) <= 1e-3;
            if !on_arm {
                continue;
            }
            let d4 = wrap(s[3] - prev[3]) * rp.signs[3] as f64;
            let d6 = wrap(s[5] - prev[5]) * rp.signs[5] as f64;
            let diff = circ_dist(d4, d6);
            best = best.min(diff);
            if diff <= 1e-6 {
                found = true;
            }
        }
        mon.count("continuity.previous_j5_inside_the_band");
        if found {
            mon.held();
        } else {
            mon.violation(&format!("continuity:j4-j6-unequal-move:previous-inside-band:signs46={}", signs), "previous J5 inside the band (not zero), requested pose exactly singular: no answer on the previous arm moves J4 and J6 by the same amount", detail("equal-move-inside-band", &prev, &sols, json!({"smallest_mismatch": if best.is_finite() { json!(best) } else { json!("no answer on the arm") }})));
        }
    }
    // clause 1c: the CONSTRAINT_CENTERED sentinel with limits centred on q: the centres play the role of the
    // previous joints, realise the pose, and must come back first
    {
        let (mut from, mut to) = (q, q);
        for j in 0..6 {
            let w = rng.range(0.2, 1.0);
            from[j] -= w;
            to[j] += w;
        }
        let cons = rs_opw_kinematics::constraints::Constraints::new(from, to, 0.0);
        let centred = (0..6).all(|j| (cons.centers[j] - q[j]).abs() <= 1e-12);
        if centred {
            let lim = OPWKinematics::new_with_constraints(to_params(&rp), cons);
            let sols = lim.inverse_continuing(&pose, &rs_opw_kinematics::kinematic_traits::CONSTRAINT_CENTERED);
            mon.count("continuity.sentinel_with_centres_on_q");
            match sols.first() {
                Some(s) if (0..6).all(|j| (s[j] - q[j]).abs() <= s_tol) => mon.held(),
                _ => mon.violation(&format!("continuity:first-answer-not-previous:sentinel:signs46={}", signs), "wrist-singular pose, CONSTRAINT_CENTERED with constraint centres that realise it, but the first continuation answer is not the centres", detail("first-is-centres", &q, &sols, json!({"from": jf(&from), "to": jf(&to), "tolerance": s_tol}))),
            }
        }
    }
    if idx < 2 {
        mon.sample(json!({"kind": "continuity", "robot": robot_json(&robot), "q": jf(&q), "sensitivity": sens}));
    }
}

/// `opwmon child c05debug <replay.json>`: prints what the plain solver returns for the witness pose
/// and for the three shifted poses the continuation solver tries.
pub fn debug(path: &str) -> i32 {
    let v: serde_json::Value = serde_json::from_str(&std::fs::read_to_string(path).unwrap()).unwrap();
    let r = &v["detail"]["robot"];
    let f = |k: &str| r[k].as_f64().unwrap();
    let arr6 = |k: &str| -> [f64; 6] { std::array::from_fn(|i| r[k][i].as_f64().unwrap()) };
    let rp = RParams { a1: f("a1"), a2: f("a2"), b: f("b"), c1: f("c1"), c2: f("c2"), c3: f("c3"), c4: f("c4"), offsets: arr6("offsets"), signs: arr6("signs").map(|x| x as i8), dof: 6 };
    let q: [f64; 6] = std::array::from_fn(|i| v["detail"]["q"][i].as_f64().unwrap());
    let kin = OPWKinematics::new(to_params(&rp));
    let target = fk(&rp, &q);
    println!("theta(q) = {:?}", rp.theta(&q));
    for d in [[0.0, 0.0, 0.0], [1.25e-7, 0.0, 0.0], [0.0, 1.25e-7, 0.0], [0.0, 0.0, 1.25e-7]] {
        let mut t = target;
        t.p = add(t.p, d);
        let sols = kin.inverse(&fr_to_iso(&t));
        println!("shift {:?}: {} solutions", d, sols.len());
        for s in &sols {
            let g = fk(&rp, s);
            println!("   {:?}  singular={} pos_err_to_unshifted={:.3e} rot_err={:.3e}", s, kin.kinematic_singularity(s).is_some(), pos_dist(&g, &target), rot_angle(&g.r, &target.r));
        }
    }
    0
}

pub fn debug2(path: &str) -> i32 {
    let v: serde_json::Value = serde_json::from_str(&std::fs::read_to_string(path).unwrap()).unwrap();
    let r = &v["detail"]["robot"];
    let f = |k: &str| r[k].as_f64().unwrap();
    let arr6 = |k: &str| -> [f64; 6] { std::array::from_fn(|i| r[k][i].as_f64().unwrap()) };
    let rp = RParams { a1: f("a1"), a2: f("a2"), b: f("b"), c1: f("c1"), c2: f("c2"), c3: f("c3"), c4: f("c4"), offsets: arr6("offsets"), signs: arr6("signs").map(|x| x as i8), dof: 6 };
    let q0: [f64; 6] = std::array::from_fn(|i| v["detail"]["q"][i].as_f64().unwrap());
    println!("robot {:?}", rp);
    println!("measures {:?} psi3 {}", sing_measures(&rp, &q0), rp.psi3());
    let kin = OPWKinematics::new(to_params(&rp));
    for d in [0.0, 1e-9, 1e-6, 1e-3, 0.1] {
        let mut q = q0;
        q[4] += d;
        let sols = kin.inverse(&fr_to_iso(&fk(&rp, &q)));
        let found = sols.iter().any(|s| (0..3).all(|j| circ_dist(s[j], q[j]) < 1e-6));
        println!("J5 offset {:e}: {} solutions, own arm branch present: {}", d, sols.len(), found);
    }
    0
}

pub fn debug3(path: &str) -> i32 {
    let v: serde_json::Value = serde_json::from_str(&std::fs::read_to_string(path).unwrap()).unwrap();
    let r = &v["detail"]["robot"];
    let f = |k: &str| r[k].as_f64().unwrap();
    let arr6 = |k: &str| -> [f64; 6] { std::array::from_fn(|i| r[k][i].as_f64().unwrap()) };
    let rp = RParams { a1: f("a1"), a2: f("a2"), b: f("b"), c1: f("c1"), c2: f("c2"), c3: f("c3"), c4: f("c4"), offsets: arr6("offsets"), signs: arr6("signs").map(|x| x as i8), dof: r["dof"].as_i64().unwrap() as i8 };
    let q: [f64; 6] = std::array::from_fn(|i| v["detail"]["q"][i].as_f64().unwrap());
    println!("measures {:?}", sing_measures(&rp, &q));
    let fr = chain(&rp, &q);
    let wc = fr[4].p;
    println!("wc {:?} rxy^2-b^2 = {:e}", wc, wc[0] * wc[0] + wc[1] * wc[1] - rp.b * rp.b);
    let kin = OPWKinematics::new(to_params(&rp));
    let pose = fr_to_iso(&fk(&rp, &q));
    println!("inverse_5dof -> {} solutions; inverse -> {}", kin.inverse_5dof(&pose, 0.0).len(), kin.inverse(&pose).len());
    let mut rp6 = rp;
    rp6.dof = 6;
    rp6.signs[5] = 1;
    println!("same robot as dof 6: inverse -> {}", OPWKinematics::new(to_params(&rp6)).inverse(&pose).len());
    0
}
