//! C06 — 5-DOF inverse kinematics keeps the tool point and axis exact and J6 as requested.

use crate::gen::*;
use crate::props::ik::*;
use crate::props::stack::*;
use crate::props::{robot_hash, robot_json};
use crate::refmodel::*;
use crate::report::{hash_combine, hash_f64s, jf, Mon};
use crate::rng::Rng;
use crate::{Kind, Prop, Spec, Tier};
use rs_opw_kinematics::kinematic_traits::CONSTRAINT_CENTERED;
use rs_opw_kinematics::kinematics_impl::OPWKinematics;
use serde_json::json;
use std::f64::consts::PI;
use std::sync::Arc;

pub fn prop() -> Prop {
    Prop { id: "C06", spec, run_case, finalize: None }
}

fn spec() -> Spec {
    Spec {
        kinds: vec![Kind { name: "five_dof", quick: 500_000, thorough: 12_000_000, serial: false }],
        rule: "each case = non-degenerate robot with dof 5 or 6 (64 sign patterns, offsets) bare / behind an axial tool / on an arbitrary base / both; pose = reference FK of a generated q; J6 values 0, +-pi, 1e3, random; inverse_5dof and inverse_continuing_5dof on every robot, inverse and inverse_continuing additionally on dof-5 robots; every answer: tool point, tool axis, J6 bit-identical to the caller's value; generating J1..J5 present when non-singular; never empty on a pose produced by the robot's own FK; non-trivial = call returned >= 1 vector; distinct = hash(robot, stack, q, j6, entry) Workload additions: a quarter of the robots with limits on J6 only, asymmetric about zero; the sentinel's own J6 entry (0, up to whole turns); previous = an answer for the same tool point with the axis turned by 5..30 degrees; poses whose wrist centre lies exactly on the joint-2 axis of the other shoulder branch; dof-5 robots with an unblocked sixth sign. Rounds 7-9: poses inside the wrist band; postures 1.2e-5..1e-3 rad from the elbow singularity (generating-vector clause down to an elbow measure of 1e-5); J6 ranges wrapping the +-180 degree seam; targets with an exactly zero coordinate.",
        assumptions: vec![
            "accuracy 1e-6 m / 1e-6 rad plus slack 1e-9 + 1e-12*reach",
            "generating J1..J5 expected only when |sin t5| and the wrist-centre/axis-1 distance (relative to reach) are >= 1e-3 and |sin(t3+psi3)| >= 1e-3, or >= 1e-5 with |sin t5| >= 0.05 and a match tolerance of 5e-6 rad (the closed form is exact up to rounding, so next to the elbow singularity the originating vector is still reproduced unless the wrist is ill-conditioned as well)",
            "with the CONSTRAINT_CENTERED sentinel ([NaN,0,0,0,0,0]) as previous the caller's J6 is the sentinel's own entry 0, accepted up to whole turns (the solver normalises angles near the constraint centres)",
        ],
        minimums: vec![("oracle_evals", 10_000_000, 250_000_000), ("dof5_plain_inverse_calls", 100_000, 2_500_000), ("answers_checked", 3_000_000, 70_000_000)],
    }
}

fn run_case(_kind: &str, idx: u64, rng: &mut Rng, mon: &mut Mon, _tier: Tier) {
    let robot = gen_robot(rng, idx, RobotMode::NonDegenerate, 0.5);
    let rp = robot.rp;
    // a quarter of the robots carries limits on J6 only (asymmetric about zero, so that the centre of the
    // range is not zero); every J6 value used below lies inside, so no answer may be filtered out
    let limited = rng.bool(0.25);
    // (a third of those ranges wraps the +-180 degree seam instead: from ~ +2.2, to ~ -2.2, centre pi; the J6 values
    // used then lie inside it on either side of the seam, and plain inverse - J6 = 0, outside - is not asked)
    let seam_range = limited && rng.bool(0.33);
    let lim = if seam_range { (rng.range(1.8, 2.6), -rng.range(1.8, 2.6)) } else { (-rng.range(0.6, 1.5), rng.range(1.6, 3.0)) };
    let bare: Arc<dyn rs_opw_kinematics::kinematic_traits::Kinematics> = if limited {
        let (mut from, mut to) = ([0.0; 6], [0.0; 6]);
        from[5] = lim.0;
        to[5] = lim.1;
        mon.count("robots_with_j6_limits");
        Arc::new(OPWKinematics::new_with_constraints(to_params(&rp), rs_opw_kinematics::constraints::Constraints::new(from, to, rng.range(0.0, 1.0))))
    } else {
        Arc::new(OPWKinematics::new(to_params(&rp)))
    };
    let layers: Vec<Layer> = match rng.usize(4) {
        0 => vec![],
        1 => gen_stack(rng, 1, true, &["Tool"]),
        2 => gen_stack(rng, 1, true, &["Base"]),
        _ => {
            let mut v = gen_stack(rng, 1, true, &["Base"]);
            v.extend(gen_stack(rng, 1, true, &["Tool"]));
            v
        }
    };
    let kin = build(bare, &layers);
    let sname = stack_name(&layers);
    let mut q = joints_uniform(rng, PI);
    let mut target = ref_forward(&rp, &layers, &q);
    // a twelfth of the poses: the wrist centre sits EXACTLY on the joint-2 axis of one shoulder branch (an
    // intermediate distance of that branch is an exact zero); the other shoulder branch reaches it normally.
    // The reference configuration comes from the 6-DOF closed form of the same geometry.
    if rng.bool(0.08) && rp.a1 != 0.0 {
        let mut probe = [0.0; 6];
        probe[0] = rng.range(-PI, PI);
        let o2 = chain(&rp, &probe)[1].p;
        let r = random_rotation(rng);
        let flange = Fr { r, p: add(o2, scale(col(&r, 2), rp.c4)) };
        let mut rp6 = rp;
        rp6.dof = 6;
        if rp6.signs[5] == 0 {
            rp6.signs[5] = 1;
        }
        let sols6 = rs_opw_kinematics::kinematic_traits::Kinematics::inverse(&OPWKinematics::new(to_params(&rp6)), &fr_to_iso(&flange));
        if let Some(s6) = sols6.first() {
            q = *s6;
            let mut t = flange;
            for l in &layers {
                match l {
                    Layer::Tool(x) | Layer::Frame(x) => t = t.mul(x),
                    Layer::Base(x) => t = x.mul(&t),
                    _ => {}
                }
            }
            target = t;
            mon.count("wrist_centre_exactly_on_a_joint2_axis");
        }
    }
    // a twelfth of the poses has the model J5 inside the 0.01 degree wrist band without being zero: J4 still steers
    // the tool axis there, whatever the previous J4 was
    if rng.bool(0.08) && rp.signs[4] != 0 {
        place_t5(&rp, &mut q, 0, rng.sign() * rng.logu(2e-5, 1.6e-4));
        target = ref_forward(&rp, &layers, &q);
        mon.count("poses_inside_the_wrist_band");
    }
    // one pose in twenty is a hand-written target: one coordinate of the (bare robot's) flange point is exactly 0.0; the
    // reference configuration comes from the 6-DOF closed form of the same geometry
    if rng.usize(20) == 0 {
        let mut flange = fk(&rp, &q);
        flange.p[rng.usize(3)] = 0.0;
        let mut rp6 = rp;
        rp6.dof = 6;
        if rp6.signs[5] == 0 {
            rp6.signs[5] = 1;
        }
        let sols6 = rs_opw_kinematics::kinematic_traits::Kinematics::inverse(&OPWKinematics::new(to_params(&rp6)), &fr_to_iso(&flange));
        if let Some(s6) = sols6.first() {
            q = *s6;
            let mut t = flange;
            for l in &layers {
                match l {
                    Layer::Tool(x) | Layer::Frame(x) => t = t.mul(x),
                    Layer::Base(x) => t = x.mul(&t),
                    _ => {}
                }
            }
            target = t;
            mon.count("targets_with_an_exactly_zero_coordinate");
        }
    }
    // a twelfth of the postures has the elbow 1.2e-5 .. 1e-3 rad from fully stretched / folded (not AT the
    // singularity): the elbow-up and elbow-down rows of the closed form are then two distinct answers a few 1e-5 rad apart
    let near_stretch = rng.bool(0.08) && rp.signs[2] != 0;
    if near_stretch {
        let t3 = -rp.psi3() + if rng.bool(0.5) { 0.0 } else { PI } + rng.sign() * rng.logu(1.2e-5, 1e-3);
        q[2] = (t3 + rp.offsets[2]) * rp.signs[2] as f64;
        target = ref_forward(&rp, &layers, &q);
        mon.count("postures_next_to_the_elbow_singularity");
    }
    let (q, target) = (q, target);
    let pose = fr_to_iso(&target);
    let j6 = *rng.pick(&[0.0, PI, -PI, 1e3, rng.clone().range(-2.0 * PI, 2.0 * PI), q[5]]);
    let _ = rng.next_u64();
    let j6 = if seam_range { rng.sign() * (PI - rng.range(0.05, 0.4)) } else if limited { rng.range(-0.5, 0.5) } else { j6 };
    let sentinel = !seam_range && rng.bool(if limited { 0.4 } else { 0.1 });
    let mut prev = q;
    for j in 0..5 {
        prev[j] += rng.range(-0.3, 0.3);
    }
    prev[5] = j6;
    // a tenth of the previous vectors is the current posture of a reorientation in place: an answer for the
    // SAME tool point with the axis turned by 5..30 degrees
    if !sentinel && rng.bool(0.1) {
        let ax = col(&random_rotation(rng), 0);
        let turned = Fr { r: Fr::new(axis_angle(ax, rng.range(5.0f64, 30.0).to_radians()), [0.0; 3]).mul(&Fr::new(target.r, [0.0; 3])).r, p: target.p };
        if let Ok(s) = call(kin.as_ref(), Entry::FiveDof, &fr_to_iso(&turned), &q, j6) {
            if let Some(p) = s.first() {
                prev = *p;
                prev[5] = j6;
                mon.count("previous_is_same_point_other_axis");
            }
        }
    }
    if sentinel {
        prev = CONSTRAINT_CENTERED;
    }
    let m = sing_measures(&rp, &q);
    // (the closed form is exact up to rounding, so next to the ELBOW singularity the originating vector is still
    // reproduced to ~1e-11/elbow; it is expected down to an elbow measure of 1e-5. Wrist and shoulder keep 1e-3.)
    // (... provided the wrist is well away from its own singularity: the two ill-conditionings multiply)
    let nonsing = m.wrist.min(m.shoulder) >= 1e-3 && (m.elbow >= 1e-3 || (m.elbow >= 1e-5 && m.wrist >= 0.05));
    let match_tol = if m.elbow >= 1e-3 { 1e-6 } else { 5e-6 };
    let reach = rp.reach() + layers.iter().map(|l| match l { Layer::Tool(f) | Layer::Base(f) | Layer::Frame(f) => norm(f.p), _ => 0.0 }).sum::<f64>();
    // (the 5-DOF solvers cross-check the flange position only; behind a tool the axis accuracy acts on its length)
    let lever: f64 = layers.iter().map(|l| match l { Layer::Tool(f) | Layer::Frame(f) => norm(f.p), _ => 0.0 }).sum();
    let ptol = 1e-6 * (1.0 + lever) + 1e-9 + 1e-12 * reach;
    let rtol = 1e-6 + 1e-9;
    mon.count(&format!("stack.{}", sname));
    mon.count(if rp.dof == 5 { "robots_dof5" } else { "robots_dof6" });

    let entries: &[Entry] = if rp.dof == 5 && !seam_range { &ENTRIES } else if rp.dof == 5 { &[Entry::Continuing, Entry::FiveDof, Entry::Continuing5] } else { &[Entry::FiveDof, Entry::Continuing5] };
    for &e in entries {
        let detail = |what: &str, extra: serde_json::Value| json!({"robot": robot_json(&robot), "stack": stack_json(&layers), "entry": e.name(), "q": jf(&q), "prev": jf(&prev), "j6": j6, "j6_limits": if limited { json!([lim.0, lim.1]) } else { json!(null) }, "clause": what, "extra": extra});
        if rp.dof == 5 && e == Entry::Inverse {
            mon.count("dof5_plain_inverse_calls");
        }
        let sols = match call(kin.as_ref(), e, &pose, &prev, j6) {
            Ok(s) => s,
            Err(msg) => {
                mon.violation(&format!("panic:{}", e.name()), "entry point panicked", detail("no-panic", json!({"panic": msg})));
                continue;
            }
        };
        let cell = format!("{}:{}:{}", if rp.dof == 5 { "dof5" } else { "dof6" }, sname, e.name());
        mon.count(&format!("cell.{}", cell));
        if sols.is_empty() {
            // (at an exact shoulder / elbow singularity the closed form has no finite answer for any dof)
            if rp.dof == 5 && m.elbow.min(m.shoulder) >= 1e-6 {
                mon.violation(&format!("empty-answer:dof5:{}:{}", sname, e.name()), "a 5-DOF robot returned nothing for a pose produced by its own forward kinematics", detail("non-empty", json!({})));
            } else if nonsing {
                mon.violation(&format!("empty-answer:dof6:{}:{}", sname, e.name()), "5-DOF entry point returned nothing for a reachable non-singular pose", detail("non-empty", json!({})));
            } else {
                mon.inconclusive("empty-near-singular");
            }
            continue;
        }
        mon.held();
        mon.nontrivial(hash_combine(hash_combine(robot_hash(&robot), hash_f64s(&q)), hash_combine(j6.to_bits(), hash_combine(e as u64 + 1, crate::rng::hash_str(&sname)))));
        let expected_j6: Option<f64> = match e {
            Entry::Inverse => Some(0.0),
            Entry::FiveDof => Some(j6),
            // (the sentinel vector CONSTRAINT_CENTERED = [NaN, 0, 0, 0, 0, 0] carries 0 in its J6 slot; the
            // solver may normalise that value near the centre of the J6 range, i.e. add whole turns)
            Entry::Continuing | Entry::Continuing5 => if sentinel { None } else { Some(prev[5]) },
        };
        if sentinel && e.is_continuing() {
            mon.count("sentinel_j6_checked");
        }
        let mut found_generating = false;
        for s in &sols {
            mon.count("answers_checked");
            let got = ref_forward(&rp, &layers, s);
            let dp = pos_dist(&got, &target);
            let da = vec_angle(got.z(), target.z());
            mon.max("pos_err", dp);
            mon.max("axis_err", da);
            if !(dp <= ptol) {
                mon.violation(&format!("tool-point:{}", cell), "5-DOF answer does not reproduce the tool point", detail("tool-point", json!({"solution": jf(s), "dp": dp})));
            } else if !(da <= rtol) {
                mon.violation(&format!("tool-axis:{}", cell), "5-DOF answer does not reproduce the tool axis", detail("tool-axis", json!({"solution": jf(s), "da": da})));
            } else {
                mon.held();
            }
            if sentinel && e.is_continuing() {
                let turns = (s[5] - CONSTRAINT_CENTERED[5]) / (2.0 * PI);
                if !((turns - turns.round()).abs() <= 1e-12) {
                    mon.violation(&format!("j6-not-callers-value:sentinel:{}", cell), "with the CONSTRAINT_CENTERED sentinel as previous, joint 6 of a 5-DOF answer is not the sentinel's own J6 entry (0) up to whole turns", detail("j6", json!({"solution": jf(s), "expected_j6": "0 (mod 2*pi)", "limited": limited, "j6_limits": [lim.0, lim.1]})));
                } else {
                    mon.held();
                }
            }
            if let Some(x) = expected_j6 {
                if s[5].to_bits() != x.to_bits() && !(s[5] == x) {
                    mon.violation(&format!("j6-not-callers-value:{}", cell), "joint 6 of a 5-DOF answer is not the caller's value", detail("j6", json!({"solution": jf(s), "expected_j6": x})));
                } else {
                    mon.held();
                }
            }
            if (0..5).all(|j| circ_dist(s[j], q[j]) <= match_tol) {
                found_generating = true;
            }
        }
        if nonsing {
            if !found_generating {
                mon.violation(&format!("generating-j1-j5-missing:{}", cell), "the originating J1..J5 is not among the 5-DOF answers", detail("generating", json!({"answers": sols.iter().map(|s| jf(s)).collect::<Vec<_>>()})));
            } else {
                mon.held();
            }
        } else {
            mon.inconclusive("generating:near-singular");
        }
    }
    if idx < 2 {
        mon.sample(json!({"robot": robot_json(&robot), "stack": stack_json(&layers), "q": jf(&q), "j6": j6}));
    }
}
