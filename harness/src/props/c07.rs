//! C07 — joint limits mean arc membership modulo 2*pi.

use crate::refmodel::arc_contains;
use crate::report::{hash_f64s, jf, Mon};
use crate::rng::Rng;
use crate::{Kind, Prop, Spec, Tier};
use rs_opw_kinematics::constraints::{Constraints, BY_PREV};
use serde_json::{json, Map, Value};
use std::f64::consts::PI;

pub fn prop() -> Prop {
    Prop { id: "C07", spec, run_case, finalize: Some(finalize) }
}

fn spec() -> Spec {
    Spec {
        kinds: vec![Kind { name: "random_reals", quick: 1_000_000, thorough: 30_000_000, serial: false }],
        rule: "(a) exhaustive 5-degree lattice (from,to,angle) in [-720,720]^3 decided in exact integer arithmetic, through Constraints::new, from_degrees and update_range, joint index rotating; (b) random real (from,to) in [-4pi,4pi]^2 per joint, six independent joints per call, angles kept >= 1e-9 from the arc ends, with turn-shift metamorphic variants k=-2..2, centre acceptance and filter==compliant; non-trivial = the six joints do not all give the same verdict trivially (at least one constrained joint); distinct = hash(from,to,angles) Workload additions: update_range as a history (earlier limits share one bound / are unconstrained / unrelated, optional intermediate update); from == to written with zeros of opposite sign; arcs a few ulps to a nanoradian wide; wrap-around ranges with both limits in (pi,2pi); from_degrees judged against degrees converted by the monitor; a quarter of the deciding angles 2e-9..1e-6 rad next to an arc end. Rounds 7-9: tiny forbidden gap next to a full turn; infinite bounds. Round 10: filter() on lists whose rows repeat joint values of earlier rows bit for bit.",
        assumptions: vec![
            "from > to with from == to (mod 2pi) is degenerate (zero width vs full turn is not defined by the property) and is skipped",
            "random reals within 1e-9 rad of an arc end are inconclusive",
        ],
        minimums: vec![("oracle_evals", 20_000_000, 30_000_000), ("lattice_triples", 24_000_000, 24_000_000), ("lattice_boundary_points", 100_000, 100_000), ("filter_lists_with_repeated_values", 300_000, 9_000_000)],
    }
}

fn expected_and(from: &[f64; 6], to: &[f64; 6], ang: &[f64; 6]) -> (Option<bool>, bool) {
    // returns (verdict, conclusive)
    let mut all = true;
    for j in 0..6 {
        let (v, d) = arc_contains(from[j], to[j], ang[j]);
        match v {
            None => return (None, false),
            Some(x) => {
                if d < 1e-9 {
                    return (None, false);
                }
                all &= x;
            }
        }
    }
    (Some(all), true)
}

fn run_case(_kind: &str, idx: u64, rng: &mut Rng, mon: &mut Mon, _tier: Tier) {
    let mut from = [0.0; 6];
    let mut to = [0.0; 6];
    let mut ang = [0.0; 6];
    // choose which joints are "interesting": others get a surely-accepting arc so that a single
    // joint decides the verdict in many cases (index mix-ups become visible)
    let focus = rng.usize(7); // 6 = all joints random
    for j in 0..6 {
        // (tiny arcs only on the deciding joint: elsewhere they would make the whole vector inconclusive)
        let cls = if focus < 6 && j != focus { *rng.pick(&[0, 1, 2, 3, 4, 5, 6, 7, 9, 12]) } else { rng.usize(13) };
        let around = rng.range(-PI, PI);
        let (f, t) = crate::gen::limit_pair(rng, cls, around);
        from[j] = f;
        to[j] = t;
        ang[j] = rng.range(-4.0 * PI, 4.0 * PI);
        // (the tiny forbidden gap of class 11 is centred on `around`: most of its angles are placed right there)
        if cls == 11 && rng.bool(0.7) {
            ang[j] = around + 2.0 * PI * rng.int(-2, 2) as f64;
        }
        if focus < 6 && j != focus {
            // place the angle inside the arc (if the arc has an inside with margin)
            let (v, d) = arc_contains(f, t, ang[j]);
            if v == Some(false) || d < 1e-6 {
                let width = if f == t || t - f >= 2.0 * PI { 2.0 * PI } else { (t - f).rem_euclid(2.0 * PI) };
                ang[j] = f + width * rng.range(0.2, 0.8) + 2.0 * PI * rng.int(-1, 1) as f64;
            }
        }
    }
    let w = crate::gen::weight(rng);
    let c = match rng.usize(3) {
        0 => Constraints::new(from, to, w),
        1 => {
            crate::gen::via_update_range(rng, from, to, w)
        }
        _ => {
            // from_degrees: feed degrees; the reference limits are those degrees converted by the monitor
            // itself in f64 (not what the library stored)
            let (fd, td): ([f64; 6], [f64; 6]) = (std::array::from_fn(|j| from[j].to_degrees()), std::array::from_fn(|j| to[j].to_degrees()));
            let r: [std::ops::RangeInclusive<f64>; 6] = std::array::from_fn(|j| fd[j]..=td[j]);
            let c = Constraints::from_degrees(r, w);
            from = std::array::from_fn(|j| fd[j].to_radians());
            to = std::array::from_fn(|j| td[j].to_radians());
            c
        }
    };
    // a quarter of the deciding angles sits right next to an arc end (2e-9 .. 1e-6 rad inside or outside)
    if focus < 6 && from[focus] != to[focus] && rng.bool(0.25) {
        let end = if rng.bool(0.5) { from[focus] } else { to[focus] };
        ang[focus] = end + rng.sign() * rng.logu(2e-9, 1e-6) + 2.0 * PI * rng.int(-1, 1) as f64;
        mon.count("angles_next_to_an_arc_end");
    }
    let detail = |what: &str, extra: Value| json!({"from": jf(&from), "to": jf(&to), "angles": jf(&ang), "clause": what, "extra": extra});
    let (exp, conclusive) = expected_and(&from, &to, &ang);
    if !conclusive {
        mon.inconclusive("near-arc-end-or-degenerate");
        return;
    }
    let exp = exp.unwrap();
    let got = c.compliant(&ang);
    mon.count(if exp { "expected_accept" } else { "expected_reject" });
    if got != exp {
        let mut bad = vec![];
        for j in 0..6 {
            // isolate joint j in a fresh constraint set whose other joints are trivially satisfied
            let single = {
                let mut f1 = [-1.0; 6];
                let mut t1 = [1.0; 6];
                f1[j] = from[j];
                t1[j] = to[j];
                let mut a = [0.0; 6];
                a[j] = ang[j];
                Constraints::new(f1, t1, w).compliant(&a)
            };
            let (v, _) = arc_contains(from[j], to[j], ang[j]);
            if Some(single) != v {
                bad.push(json!({"joint": j, "from": from[j], "to": to[j], "angle": ang[j], "expected": v, "class": arc_class(from[j], to[j])}));
            }
        }
        let cls = bad.get(0).map(|b| b["class"].as_str().unwrap_or("?").to_string()).unwrap_or("joint-mixup".into());
        mon.violation(&format!("random-reals:{}:{}", if exp { "rejected-inside" } else { "accepted-outside" }, cls), "compliant() disagrees with arc membership", detail("arc", json!({"expected": exp, "got": got, "per_joint": bad})));
    } else {
        mon.held();
    }
    if from.iter().zip(to.iter()).any(|(f, t)| f != t && t - f < 2.0 * PI) {
        mon.nontrivial(hash_f64s(&[from, to, ang].concat()));
    }
    // turn invariance: angle += 2pi k, limits += 2pi k
    for k in [-2i32, -1, 1, 2] {
        let sh = 2.0 * PI * k as f64;
        let a2: [f64; 6] = std::array::from_fn(|j| ang[j] + sh);
        if expected_and(&from, &to, &a2).1 {
            if c.compliant(&a2) != exp {
                mon.violation("turn-invariance:angle", "verdict changes when whole turns are added to the angle", detail("turn-angle", json!({"k": k, "expected": exp})));
            } else {
                mon.held();
            }
        }
        let f2: [f64; 6] = std::array::from_fn(|j| from[j] + sh);
        let t2: [f64; 6] = std::array::from_fn(|j| to[j] + sh);
        // (an arc narrower than a microradian does not survive the rounding of the shift itself: the shifted
        // limits may coincide or describe an arc of another width)
        let shift_keeps_arcs = (0..6).all(|j| from[j] == to[j] || (to[j] - from[j]).abs() >= 1e-6);
        if shift_keeps_arcs && expected_and(&f2, &t2, &ang).1 {
            let c2 = Constraints::new(f2, t2, w);
            if c2.compliant(&ang) != exp {
                mon.violation("turn-invariance:limits", "verdict changes when whole turns are added to both limits", detail("turn-limits", json!({"k": k, "expected": exp})));
            } else {
                mon.held();
            }
        }
    }
    // centres are accepted
    if !c.compliant(&c.centers) {
        mon.violation("centre-rejected", "the reported centres are not accepted", detail("centres", json!({"centers": jf(&c.centers)})));
    } else {
        mon.held();
    }
    // filter == elementwise compliant
    let mut list: Vec<[f64; 6]> = (0..4).map(|i| if i == 0 { ang } else { std::array::from_fn(|_| rng.range(-4.0 * PI, 4.0 * PI)) }).collect();
    // (rows as a solver produces them: later rows repeat most joint values of an earlier row bit for bit and differ in one
    // to three joints, which take an accepted value (the centre), a rejected one (opposite the centre) or a random one)
    if rng.bool(0.5) {
        list.truncate(1 + rng.usize(2));
        for _ in 0..(2 + rng.usize(5)) {
            let mut row = list[rng.usize(list.len())];
            for _ in 0..(1 + rng.usize(3)) {
                let j = rng.usize(6);
                row[j] = match rng.usize(3) { 0 if c.centers[j].is_finite() => c.centers[j], 1 if c.centers[j].is_finite() => c.centers[j] + PI, _ => rng.range(-PI, PI) };
            }
            list.push(row);
        }
        mon.count("filter_lists_with_repeated_values");
    }
    let filtered = c.filter(&list);
    let manual: Vec<[f64; 6]> = list.iter().filter(|a| c.compliant(a)).cloned().collect();
    if filtered != manual {
        mon.violation("filter-vs-compliant", "filter() differs from elementwise compliant()", detail("filter", json!({})));
    } else {
        mon.held();
    }
    if idx < 2 {
        mon.sample(json!({"from": jf(&from), "to": jf(&to), "angles": jf(&ang), "expected": exp}));
    }
}

fn arc_class(from: f64, to: f64) -> &'static str {
    if from == to {
        "from==to"
    } else if to - from >= 2.0 * PI {
        "span>=2pi"
    } else if from < to {
        "from<to"
    } else {
        "from>to"
    }
}

/// Exhaustive lattice in exact integer degrees.
fn finalize(mon: &mut Mon, _tier: Tier, _seed: u64, extra: &mut Map<String, Value>) {
    let step = 5i64;
    let lo = -720i64;
    let hi = 720i64;
    let n = ((hi - lo) / step + 1) as usize;
    let results: Vec<Mon> = {
        let chunks: Vec<usize> = (0..n).collect();
        let out = std::sync::Mutex::new(Vec::new());
        let next = std::sync::atomic::AtomicUsize::new(0);
        std::thread::scope(|s| {
            for _ in 0..16 {
                s.spawn(|| {
                    let mut m = Mon::new();
                    m.cur_kind = "finalize".into();
                    loop {
                        let fi = next.fetch_add(1, std::sync::atomic::Ordering::Relaxed);
                        if fi >= chunks.len() {
                            break;
                        }
                        let from_d = lo + step * fi as i64;
                        for ti in 0..n {
                            let to_d = lo + step * ti as i64;
                            lattice_pair(&mut m, from_d, to_d, lo, hi, step, (fi + ti) % 6, (fi * 7 + ti) % 3);
                        }
                    }
                    out.lock().unwrap().push(m);
                });
            }
        });
        out.into_inner().unwrap()
    };
    for m in results {
        mon.merge(m);
    }
    extra.insert("exhaustive_subspace".into(), json!("5-degree lattice (from,to,angle) in [-720,720]^3 enumerated completely; exact integer oracle"));
}

fn lattice_pair(m: &mut Mon, from_d: i64, to_d: i64, lo: i64, hi: i64, step: i64, joint: usize, ctor: usize) {
    let degenerate = from_d > to_d && (from_d - to_d) % 360 == 0;
    let mut from = [-1.0f64; 6];
    let mut to = [1.0f64; 6];
    let c = match ctor {
        0 => {
            from[joint] = (from_d as f64).to_radians();
            to[joint] = (to_d as f64).to_radians();
            Constraints::new(from, to, BY_PREV)
        }
        1 => {
            from[joint] = (from_d as f64).to_radians();
            to[joint] = (to_d as f64).to_radians();
            let mut c = Constraints::new([0.0; 6], [0.5; 6], BY_PREV);
            c.update_range(from, to);
            c
        }
        _ => {
            let r: [std::ops::RangeInclusive<f64>; 6] = std::array::from_fn(|j| if j == joint { (from_d as f64)..=(to_d as f64) } else { (-57.0)..=(57.0) });
            Constraints::from_degrees(r, BY_PREV)
        }
    };
    let mut a = lo;
    while a <= hi {
        m.count("lattice_triples");
        if degenerate {
            m.inconclusive("lattice:degenerate-from>to-same-angle");
            a += step;
            continue;
        }
        let expected = if from_d == to_d || to_d - from_d >= 360 {
            true
        } else {
            let rel = (a - from_d).rem_euclid(360);
            let width = (to_d - from_d).rem_euclid(360);
            if rel == 0 || rel == width {
                m.count("lattice_boundary_points");
            }
            rel <= width
        };
        let mut ang = [0.0f64; 6];
        ang[joint] = (a as f64).to_radians();
        let got = c.compliant(&ang);
        if got != expected {
            let cls = if from_d == to_d {
                "from==to"
            } else if to_d - from_d >= 360 {
                "span>=360"
            } else {
                let rel = (a - from_d).rem_euclid(360);
                let width = (to_d - from_d).rem_euclid(360);
                if rel == 0 || rel == width {
                    "boundary"
                } else {
                    "interior"
                }
            };
            m.violation(
                &format!("lattice:{}:{}", if expected { "rejected-inside" } else { "accepted-outside" }, cls),
                "compliant() disagrees with exact integer arc membership on the 5-degree lattice",
                json!({"from_deg": from_d, "to_deg": to_d, "angle_deg": a, "joint": joint, "constructor": (["new", "update_range", "from_degrees"][ctor]), "expected": expected, "got": got}),
            );
        } else {
            m.held();
        }
        a += step;
    }
}
