//! C08 — a constrained solver returns exactly the compliant solutions.

use crate::gen::*;
use crate::props::ik::*;
use crate::props::stack::*;
use crate::props::{robot_hash, robot_json};
use crate::refmodel::*;
use crate::report::{hash_combine, hash_f64s, jf, Mon};
use crate::rng::Rng;
use crate::{Kind, Prop, Spec, Tier};
use rs_opw_kinematics::constraints::Constraints;
use rs_opw_kinematics::kinematic_traits::{Kinematics, CONSTRAINT_CENTERED};
use rs_opw_kinematics::kinematics_impl::OPWKinematics;
use serde_json::json;
use std::f64::consts::PI;
use std::sync::Arc;

pub fn prop() -> Prop {
    Prop { id: "C08", spec, run_case, finalize: None }
}

fn spec() -> Spec {
    Spec {
        kinds: vec![Kind { name: "constrained", quick: 1_500_000, thorough: 40_000_000, serial: false }],
        rule: "each case = non-degenerate robot (dof 5/6) inside a wrapper stack of depth 0..3 drawn from Tool/Base/Frame/Parallelogram; the same stack is built twice, with and without joint limits; limits per joint from the classes narrow-window-around-a-real-solution / wide / wrapping (three kinds) / from==to / span>=2pi / far out, weights 0, 1, random; all four entry points; constrained answers must be compliant (reference arc oracle, in the wrapped robot's coordinates) and every compliant unconstrained answer must be present; constraints() of the stack must be the wrapped robot's; non-trivial = the unconstrained call returned >= 1 answer and at least one joint is constrained; distinct = hash(robot, stack, q, limits, entry) Workload additions: limits installed through new / update_range histories / from_degrees; from == to with signed zeros; a tenth of the poses exactly wrist-singular with the generating vector as previous; dof-5 robots with an unblocked sixth sign. Rounds 7-9: a joint all but locked with the solution a hair outside; tiny forbidden gaps; infinite bounds (with explicit previous vectors only); singular poses with a previous vector off the arm.",
        assumptions: vec![
            "Parallelogram: limits live in the wrapped robot's coordinates, so answers are mapped back (coupled -= scaling*driven) before the arc test; this is the reading under which the statement's two halves agree with 'the limits a wrapper reports are those of the robot it wraps'",
            "answers within 1e-9 rad of an arc end are inconclusive",
            "matching of answers between the two stacks is modulo 2pi with tolerance 1e-9, in the wrapped robot's coordinates",
        ],
        minimums: vec![("oracle_evals", 2_000_000, 60_000_000), ("kept", 600_000, 16_000_000), ("dropped", 4_000_000, 100_000_000)],
    }
}

fn compliant_ref(from: &[f64; 6], to: &[f64; 6], a: &[f64; 6]) -> (bool, bool) {
    // (compliant, conclusive)
    let mut ok = true;
    for j in 0..6 {
        let (v, d) = arc_contains(from[j], to[j], a[j]);
        match v {
            None => return (false, false),
            Some(x) => {
                if d < 1e-9 {
                    return (false, false);
                }
                ok &= x;
            }
        }
    }
    (ok, true)
}

fn run_case(_kind: &str, idx: u64, rng: &mut Rng, mon: &mut Mon, _tier: Tier) {
    let robot = gen_robot(rng, idx, RobotMode::NonDegenerate, 0.3);
    let rp = robot.rp;
    let depth = rng.usize(4);
    let layers = gen_stack(rng, depth, false, &["Tool", "Base", "Frame", "Parallelogram"]);
    let sname = stack_name(&layers);
    let mut q = joints_uniform(rng, PI);
    // a tenth of the poses is exactly wrist-singular (model J5 = k*pi; stacks without couplings), with the
    // generating vector as previous: the recovered solution must survive limits that admit it
    let singular_pose = rng.bool(0.1) && !layers.iter().any(|l| matches!(l, Layer::Para { .. }));
    if singular_pose {
        place_t5(&rp, &mut q, rng.int(-1, 1) as i32, 0.0);
        mon.count("wrist_singular_poses");
    }
    let pose = fr_to_iso(&ref_forward(&rp, &layers, &q));
    let free = build(Arc::new(OPWKinematics::new(to_params(&rp))), &layers);
    let e = ENTRIES[rng.usize(4)];
    let j6 = rng.range(-PI, PI);
    let mut prev = match if singular_pose { 1 } else { rng.usize(4) } {
        0 => CONSTRAINT_CENTERED,
        1 => q,
        _ => joints_uniform(rng, 2.0 * PI),
    };
    // (half of the singular cases: the previous vector itself is far outside whatever window J1, J2 or J3 will get -
    // a previous vector is a hint, not a solution; what is recovered from it does not depend on the limits)
    if singular_pose && rng.bool(0.5) {
        prev[rng.usize(3)] += rng.sign() * rng.range(0.6, 1.5);
        mon.count("wrist_singular_poses_with_previous_off_the_arm");
    }
    let prev = prev;
    let sentinel = prev[0].is_nan();
    let unconstrained = match call(free.as_ref(), e, &pose, &prev, j6) {
        Ok(s) => s,
        Err(_) => {
            mon.inconclusive("unconstrained-call-panicked");
            return;
        }
    };
    // window around one real solution (inner coordinates)
    let anchor = if unconstrained.is_empty() { ref_inner_joints(&layers, &q) } else { ref_inner_joints(&layers, &unconstrained[rng.usize(unconstrained.len())]) };
    let mut from = [0.0; 6];
    let mut to = [0.0; 6];
    let mut classes = [0usize; 6];
    for j in 0..6 {
        let cls = *rng.pick(&[0, 0, 0, 1, 1, 2, 3, 4, 5, 5, 6, 7, 10, 11, 12]);
        // (with the CONSTRAINT_CENTERED sentinel the constraint centres become the previous vector; the centre of a
        // range with an infinite bound is not finite, and non-finite previous vectors are outside the property's
        // quantifier - see DESIGN 7.3: the singularity recovery spins on them. Infinite bounds go with explicit previous.)
        // (and not on J4 / J6, whose previous values drive the recovery loop: a change that swaps the previous vector for the
        // centres would hang the check instead of failing it)
        let cls = if cls == 12 && (sentinel || j == 3 || j == 5) { 6 } else { cls };
        classes[j] = cls;
        let (f, t) = limit_pair(rng, cls, anchor[j]);
        from[j] = f;
        to[j] = t;
    }
    let w = weight(rng);
    // (a third of the limit sets is installed through update_range on an earlier, different set)
    let cons = match rng.usize(6) {
        0 | 1 => {
            mon.count("limits_via_update_range");
            via_update_range(rng, from, to, w)
        }
        2 => {
            // from_degrees: the reference limits are the fed degrees converted by the monitor itself
            mon.count("limits_via_from_degrees");
            let (fd, td): ([f64; 6], [f64; 6]) = (std::array::from_fn(|j| from[j].to_degrees()), std::array::from_fn(|j| to[j].to_degrees()));
            let c = Constraints::from_degrees(std::array::from_fn(|j| fd[j]..=td[j]), w);
            from = std::array::from_fn(|j| fd[j].to_radians());
            to = std::array::from_fn(|j| td[j].to_radians());
            c
        }
        _ => Constraints::new(from, to, w),
    };
    let limited = build(Arc::new(OPWKinematics::new_with_constraints(to_params(&rp), cons)), &layers);
    let detail = |what: &str, extra: serde_json::Value| json!({"robot": robot_json(&robot), "stack": stack_json(&layers), "entry": e.name(), "q": jf(&q), "prev": jf(&prev), "j6": j6,
        "from": jf(&from), "to": jf(&to), "weight": w, "clause": what, "extra": extra});
    let cell = format!("{}:{}", if rp.dof == 5 { "dof5" } else { "dof6" }, e.name());

    // 3. constraints() of the stack are those of the wrapped robot
    match (limited.constraints(), free.constraints()) {
        (Some(c), None) => {
            // (the centre of a range with an infinite bound is NaN or infinite: compared bit for bit)
            if c.from != from || c.to != to || c.sorting_weight.to_bits() != w.to_bits() || (0..6).any(|j| c.centers[j].to_bits() != cons.centers[j].to_bits()) {
                mon.violation(&format!("constraints-not-delegated:{}", sname), "constraints() reported by the stack differ from the wrapped robot's", detail("constraints()", json!({"reported_from": jf(&c.from), "reported_to": jf(&c.to)})));
            } else {
                mon.held();
            }
        }
        _ => mon.violation(&format!("constraints-not-delegated:{}", sname), "constraints() presence is wrong on the stack", detail("constraints()", json!({}))),
    }

    let constrained = match call(limited.as_ref(), e, &pose, &prev, j6) {
        Ok(s) => s,
        Err(msg) => {
            mon.violation(&format!("panic:{}", cell), "constrained entry point panicked", detail("no-panic", json!({"panic": msg})));
            return;
        }
    };
    mon.count(&format!("cell.{}", cell));
    mon.count(&format!("depth.{}", depth));
    if !unconstrained.is_empty() && classes.iter().any(|c| *c != 5 && *c != 6) {
        mon.nontrivial(hash_combine(hash_combine(robot_hash(&robot), hash_f64s(&q)), hash_combine(hash_f64s(&[from, to].concat()), hash_combine(e as u64 + 1, crate::rng::hash_str(&sname)))));
    }
    // 1. every constrained answer satisfies the limits
    for k in &constrained {
        let inner = ref_inner_joints(&layers, k);
        let (ok, conclusive) = compliant_ref(&from, &to, &inner);
        if !conclusive {
            mon.inconclusive("answer-near-arc-end");
            continue;
        }
        if !ok {
            mon.violation(&format!("returned-out-of-limits:{}", cell), "a constrained solver returned a joint vector outside the limits", detail("compliant", json!({"answer": jf(k), "inner": jf(&inner), "stack_name": sname})));
        } else {
            mon.held();
            mon.count("kept");
        }
    }
    // 2. every compliant unconstrained answer is still returned
    for u in &unconstrained {
        let inner = ref_inner_joints(&layers, u);
        let (ok, conclusive) = compliant_ref(&from, &to, &inner);
        if !conclusive {
            mon.inconclusive("answer-near-arc-end");
            continue;
        }
        if !ok {
            mon.count("dropped");
            continue;
        }
        // matched in the wrapped robot's coordinates: with the sentinel the two solvers normalise
        // towards different references, and a whole-turn difference of a driven joint does not stay a
        // whole turn after a parallelogram with non-integer scaling
        if !constrained.iter().any(|k| {
            let ki = ref_inner_joints(&layers, k);
            (0..6).all(|j| circ_dist(ki[j], inner[j]) <= 1e-9)
        }) {
            // inside the wrist-singularity band the solutions form a continuum (any J4/J6 split with the
            // right sum); which member the continuation solver returns depends on the previous vector,
            // and with the sentinel the two solvers resolve 'previous' differently (zeros vs. centres)
            // (with a real previous vector both solvers recover the same member: no exemption then)
            if rp.theta(&inner)[4].sin().abs() < 3.0e-4 && (sentinel || !e.is_continuing()) {
                mon.inconclusive("dropped-candidate-is-wrist-singular");
                continue;
            }
            mon.violation(&format!("legal-solution-dropped:{}", cell), "a solution that satisfies the limits is missing from the constrained answer", detail("complete", json!({"missing": jf(u), "inner": jf(&inner), "stack_name": sname, "constrained": constrained.iter().map(|k| jf(k)).collect::<Vec<_>>()})));
        } else {
            mon.held();
        }
    }
    if idx < 2 {
        mon.sample(json!({"robot": robot_json(&robot), "stack": sname, "entry": e.name(), "from": jf(&from), "to": jf(&to), "unconstrained": unconstrained.len(), "constrained": constrained.len()}));
    }
}
