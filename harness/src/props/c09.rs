//! C09 — tool, base and frame wrappers compose transforms consistently in both directions.

use crate::gen::*;
use crate::props::ik::*;
use crate::props::stack::*;
use crate::props::{robot_hash, robot_json};
use crate::refmodel::*;
use crate::report::{hash_combine, hash_f64s, jf, Mon};
use crate::rng::Rng;
use crate::spy::{Method, Spy, ALL_METHODS};
use crate::{Kind, Prop, Spec, Tier};
use nalgebra::Translation3;
use rs_opw_kinematics::kinematic_traits::Kinematics;
use rs_opw_kinematics::kinematics_impl::OPWKinematics;
use rs_opw_kinematics::tool::{Gantry, LinearAxis};
use serde_json::json;
use std::f64::consts::PI;
use std::sync::Arc;

pub fn prop() -> Prop {
    Prop { id: "C09", spec, run_case, finalize: None }
}

fn spec() -> Spec {
    Spec {
        kinds: vec![
            Kind { name: "value", quick: 400_000, thorough: 10_000_000, serial: false },
            Kind { name: "delegation", quick: 150_000, thorough: 3_000_000, serial: false },
            Kind { name: "axes", quick: 100_000, thorough: 2_000_000, serial: false },
            Kind { name: "shared_history", quick: 30_000, thorough: 800_000, serial: false },
            Kind { name: "with_shape", quick: 6_000, thorough: 200_000, serial: false },
        ],
        rule: "value: non-degenerate robot x stack of depth 1..3 in any order from Tool/Base/Frame (uniform rotations and translations; axial tools/frames for the 5-DOF clauses) x q: forward == base*chain*tool in plain matrices, link poses (tool unchanged, base pre-multiplied, frame last), every answer of every inverse entry point lands on the request through the reference composition, continuation ordering and verbatim J6 hold at the outermost level. delegation: the same stacks over a SpyKinematics: for each of the 8 trait methods exactly one inner call of the same method, pose argument == analytically transformed request, scalar/previous arguments bit-identical, results passed through. shared_history: 2-3 stacks of the same wrapper types but other transforms over ONE shared inner robot object, asked the bit-identical joint vector and requested pose in the order A,B,(C,)A,.. on one thread, each judged by its own reference composition. with_shape: KinematicsWithShape is a base + tool stack with a collision filter on top: the same value clauses (forward, links, every answer maps back, continuation ordering at the outermost level) on synthetic cells whose obstacles sit on IK branches of the request. axes: LinearAxis / Gantry forward == base*translation*inner forward. non-trivial = stack has a rotation != identity; distinct = hash(robot, stack, q, method) Workload additions: exactly-identity / rotation-only / translation-only wrappers and tiny rotations; joints resting at exact zeros; kind shared_history = stacks of the same types but other transforms over ONE shared inner robot; kind with_shape = the value clauses through KinematicsWithShape with obstacles on IK branches of the request. Rounds 7-9: with_shape built by the library's own constructor incl. rotation-only transforms; yaw-only and far-away bases; J6 arguments of many turns; previous = generating vector plus 1e-7..3e-5 rad. Round 10: with_shape through both library constructors (new / with_safety) and with cells 20..80 m from the world origin.",
        assumptions: vec![
            "5-DOF variants are only judged on stacks whose tools/frames are axial (translation along and rotation about the flange z axis), as the statement presupposes",
            "forward/link tolerance 1e-11*(1+reach); inverse accuracy 1e-6 m / 1e-6 rad + 1e-9",
        ],
        minimums: vec![("oracle_evals", 5_000_000, 120_000_000), ("delegation.matrix_cells", 1_000_000, 20_000_000), ("axes.checked", 300_000, 6_000_000), ("history.steps", 120_000, 3_000_000), ("with_shape.filtered_lists", 500, 20_000)],
    }
}

fn run_case(kind: &str, idx: u64, rng: &mut Rng, mon: &mut Mon, _tier: Tier) {
    match kind {
        "value" => value(idx, rng, mon),
        "delegation" => delegation(idx, rng, mon),
        "shared_history" => shared_history(idx, rng, mon),
        "with_shape" => with_shape(idx, rng, mon),
        _ => axes(idx, rng, mon),
    }
}

fn stack_reach(rp: &RParams, layers: &[Layer]) -> f64 {
    rp.reach() + layers.iter().map(|l| match l { Layer::Tool(f) | Layer::Base(f) | Layer::Frame(f) => norm(f.p), _ => 0.0 }).sum::<f64>()
}

fn value(idx: u64, rng: &mut Rng, mon: &mut Mon) {
    let robot = gen_robot(rng, idx, RobotMode::NonDegenerate, 0.15);
    let rp = robot.rp;
    let depth = 1 + rng.usize(3);
    let axial = rng.bool(0.5);
    let layers = gen_stack(rng, depth, axial, &["Tool", "Base", "Frame"]);
    let kin = build(Arc::new(make_solver(rng, &rp)), &layers);
    let q = if rng.bool(0.2) { joints_resting(rng, PI) } else { joints_uniform(rng, PI) };
    let target = ref_forward(&rp, &layers, &q);
    // (J6 of the 5-DOF variants is the caller's business: also values of more than half a turn / many turns)
    let j6 = *rng.pick(&[0.0, 1.0, -PI, q[5], 200.0f64.to_radians(), 400.0f64.to_radians(), -1000.0f64.to_radians(), rng.clone().range(-20.0, 20.0)]);
    let _ = rng.next_u64();
    let mut prev = q;
    // (a fifth of the previous vectors is the generating one plus 1e-7 .. 3e-5 rad per joint: its pose is within a
    // tenth of a millimetre of the request without being the request - a finely sampled path)
    let hair = rng.bool(0.2);
    for j in 0..6 {
        prev[j] += if hair { rng.sign() * rng.logu(1e-7, 3e-5) } else { rng.range(-0.5, 0.5) };
    }
    // (as previous J6 only inside the documented +-2pi range of previous vectors)
    if rng.bool(0.3) && j6.abs() <= 2.0 * PI {
        prev[5] = j6;
    }
    check_stack(mon, &robot, &layers, kin.as_ref(), &q, &target, &prev, j6, axial, "");
    if idx < 2 {
        mon.sample(json!({"kind": "value", "robot": robot_json(&robot), "stack": stack_json(&layers), "q": jf(&q)}));
    }
}

/// History workload: two or three stacks of the same wrapper types but different transforms share ONE
/// inner robot object (two tools on one robot, the same robot in two cells); they are asked about the
/// bit-identical joint vector and the bit-identical requested pose one after the other (A, B, A, ...).
/// Every answer is judged by the reference composition of the stack that was asked.
fn shared_history(idx: u64, rng: &mut Rng, mon: &mut Mon) {
    let robot = gen_robot(rng, idx, RobotMode::NonDegenerate, 0.15);
    let rp = robot.rp;
    let depth = 1 + rng.usize(3);
    let axial = rng.bool(0.5);
    let first = gen_stack(rng, depth, axial, &["Tool", "Base", "Frame"]);
    let kinds: Vec<&str> = first.iter().map(|l| l.name()).collect();
    let mut stacks = vec![first.clone()];
    for _ in 0..(1 + rng.usize(2)) {
        let mut v = vec![];
        for k in &kinds {
            v.extend(gen_stack(rng, 1, axial, &[k]));
        }
        // sometimes only one layer differs from the first stack
        if rng.bool(0.4) {
            let keep = rng.usize(depth);
            for (i, l) in first.iter().enumerate() {
                if i != keep {
                    v[i] = *l;
                }
            }
        }
        stacks.push(v);
    }
    let inner: Arc<dyn Kinematics> = Arc::new(OPWKinematics::new(to_params(&rp)));
    let kins: Vec<Arc<dyn Kinematics>> = stacks.iter().map(|l| build(inner.clone(), l)).collect();
    let q = if rng.bool(0.2) { joints_resting(rng, PI) } else { joints_uniform(rng, PI) };
    let request = ref_forward(&rp, &stacks[0], &q);
    let j6 = *rng.pick(&[0.0, 1.0, -PI, q[5]]);
    let mut prev = q;
    for j in 0..6 {
        prev[j] += rng.range(-0.5, 0.5);
    }
    let n = stacks.len();
    for step in 0..(2 * n + 1) {
        let k = step % n;
        mon.count("history.steps");
        check_stack(mon, &robot, &stacks[k], kins[k].as_ref(), &q, &request, &prev, j6, axial, "history:");
    }
}

/// The collision-aware robot is itself a base + tool stack (with a filter on top): same value clauses.
fn with_shape(idx: u64, rng: &mut Rng, mon: &mut Mon) {
    use crate::cell::Cell;
    let mut cell = Cell::generate(rng, idx, true, true, false);
    // base / tool transforms incl. rotation-only (a robot yawed or turned over in place at the cell origin, a tool
    // that only re-orients the TCP), translation-only and identity
    for which in 0..2 {
        let f = if which == 0 { cell.base_tf } else { cell.tool_tf };
        let g = match rng.usize(8) {
            0 => Fr { r: if which == 0 { random_rotation(rng) } else { f.r }, p: [0.0; 3] },
            1 => Fr { r: random_rotation(rng), p: [0.0; 3] },
            2 => Fr { r: I3, p: f.p },
            3 => Fr::id(),
            _ => f,
        };
        if which == 0 { cell.base_tf = g } else { cell.tool_tf = g }
    }
    // (one cell in six stands far from the world origin: hall coordinates of 20 .. 80 m)
    if rng.usize(6) == 0 {
        let d = col(&random_rotation(rng), 0);
        let far = rng.range(20.0, 80.0);
        cell.base_tf.p = [d[0] * far, d[1] * far, d[2] * far * 0.2];
        mon.count("with_shape.far_from_origin");
    }
    // the robot is built by one of the library's own two constructors (not assembled by the monitor)
    let plain_new = rng.usize(3) == 0;
    if plain_new {
        mon.count("with_shape.built_by_new");
    }
    let build_lib = |cell: &Cell| -> rs_opw_kinematics::kinematics_with_shape::KinematicsWithShape {
        if plain_new {
            return rs_opw_kinematics::kinematics_with_shape::KinematicsWithShape::new(
                to_params(&cell.robot.rp),
                cell.constraints,
                std::array::from_fn(|i| cell.links[i].to_trimesh()),
                cell.base.as_ref().unwrap().to_trimesh(),
                fr_to_iso(&cell.base_tf),
                cell.tool.as_ref().unwrap().to_trimesh(),
                fr_to_iso(&cell.tool_tf),
                cell.env.iter().map(|(m, f)| rs_opw_kinematics::collisions::CollisionBody { mesh: m.to_trimesh(), pose: fr_to_iso(f).cast::<f32>() }).collect(),
                cell.safety.mode == rs_opw_kinematics::collisions::CheckMode::FirstCollisionOnly,
            );
        }
        rs_opw_kinematics::kinematics_with_shape::KinematicsWithShape::with_safety(
            to_params(&cell.robot.rp),
            cell.constraints,
            std::array::from_fn(|i| cell.links[i].to_trimesh()),
            cell.base.as_ref().unwrap().to_trimesh(),
            fr_to_iso(&cell.base_tf),
            cell.tool.as_ref().unwrap().to_trimesh(),
            fr_to_iso(&cell.tool_tf),
            cell.env.iter().map(|(m, f)| rs_opw_kinematics::collisions::CollisionBody { mesh: m.to_trimesh(), pose: fr_to_iso(f).cast::<f32>() }).collect(),
            cell.safety.build(),
        )
    };
    let free = build_lib(&cell);
    let mut q = None;
    for _ in 0..20 {
        let t = crate::props::c10::gen_posture(rng);
        let c = cell.robot.rp.from_theta(&t);
        let c: [f64; 6] = std::array::from_fn(|j| c[j].max(-3.0).min(3.0));
        if !free.collides(&c) {
            q = Some(c);
            break;
        }
    }
    let q = match q {
        Some(q) => q,
        None => {
            mon.inconclusive("with_shape:no-free-posture");
            return;
        }
    };
    let layers = vec![Layer::Base(cell.base_tf), Layer::Tool(cell.tool_tf)];
    let request = ref_forward(&cell.robot.rp, &layers, &q);
    let mut prev = q;
    for j in 0..6 {
        prev[j] += rng.range(-0.5, 0.5);
    }
    // obstacles on IK branches of the request (often the one nearest to previous), so that the filter removes
    // answers from the front or the middle of the list
    let branches = Kinematics::inverse_continuing(&free, &fr_to_iso(&request), &prev);
    for _ in 0..(1 + rng.usize(2)) {
        if !branches.is_empty() {
            let b = branches[if rng.bool(0.6) { 0 } else { rng.usize(branches.len()) }];
            let (target, gap) = (1 + rng.usize(5), rng.range(-0.03, 0.0));
            cell.add_designed_obstacle(rng, &b, target, gap);
        }
    }
    let robot = build_lib(&cell);
    let after = Kinematics::inverse_continuing(&robot, &fr_to_iso(&request), &prev);
    if after.len() >= 2 && after.len() < branches.len() {
        mon.count("with_shape.filtered_lists");
    }
    check_stack(mon, &cell.robot, &layers, &robot, &q, &request, &prev, 0.0, false, "with-shape:");
}

#[allow(clippy::too_many_arguments)]
fn check_stack(mon: &mut Mon, robot: &Robot, layers: &Vec<Layer>, kin: &dyn Kinematics, q: &[f64; 6], request: &Fr, prev: &[f64; 6], j6: f64, axial: bool, pfx: &str) {
    let robot = *robot;
    let rp = robot.rp;
    let (q, prev) = (*q, *prev);
    let depth = layers.len();
    let layers = layers.clone();
    let full_name = stack_name(&layers);
    // signatures name the outermost wrapper and the depth, the witness holds the whole stack
    let sname = format!("{}{}@depth{}", pfx, layers.last().map(|l| l.name()).unwrap_or("bare"), depth);
    let reach = stack_reach(&rp, &layers);
    let ftol = 1e-11 * (1.0 + reach);
    let target = ref_forward(&rp, &layers, &q);
    let detail = |what: &str, extra: serde_json::Value| json!({"robot": robot_json(&robot), "stack": stack_json(&layers), "q": jf(&q), "requested_pose": {"r": request.r, "p": request.p}, "clause": what, "extra": extra});
    mon.count(&format!("value.stack.{}", full_name));
    mon.nontrivial(hash_combine(hash_combine(robot_hash(&robot), hash_f64s(&q)), crate::rng::hash_str(&sname) ^ hash_f64s(&target.p)));
    // 1. forward
    let f = iso_to_fr(&kin.forward(&q));
    let (dp, dr) = (pos_dist(&f, &target), rot_angle(&f.r, &target.r));
    if !(dp <= ftol && dr <= 1e-11) {
        mon.violation(&format!("forward-composition:{}", sname), "stack forward differs from base*robot*tool", detail("forward", json!({"dp": dp, "dr": dr})));
    } else {
        mon.held();
    }
    // 2. link poses
    let links = kin.forward_with_joint_poses(&q);
    let rl = ref_links(&rp, &layers, &q);
    for i in 0..6 {
        let l = iso_to_fr(&links[i]);
        let (dp, dr) = (pos_dist(&l, &rl[i]), rot_angle(&l.r, &rl[i].r));
        if !(dp <= ftol && dr <= 1e-11) {
            mon.violation(&format!("link-composition:{}:link{}", sname, i + 1), "stack link pose differs from the reference composition", detail("links", json!({"link": i + 1, "dp": dp, "dr": dr})));
        } else {
            mon.held();
        }
    }
    // last link == forward when the stack has only Base / Frame layers
    if layers.iter().all(|l| !matches!(l, Layer::Tool(_))) {
        let l = iso_to_fr(&links[5]);
        let (dp, dr) = (pos_dist(&l, &f), rot_angle(&l.r, &f.r));
        if !(dp <= ftol && dr <= 1e-11) {
            mon.violation(&format!("last-link-not-forward:{}", sname), "last link pose differs from forward for a base/frame stack", detail("last-link", json!({"dp": dp, "dr": dr})));
        } else {
            mon.held();
        }
    }
    // 3./4. inverse entry points
    let pose = fr_to_iso(request);
    let target = *request;
    for e in ENTRIES {
        // the 5-DOF variants (and every entry point of a dof-5 robot) presuppose a tool on the flange axis
        if (e.is_5dof() || rp.dof == 5) && !axial {
            continue;
        }
        let sols = match call(kin, e, &pose, &prev, j6) {
            Ok(s) => s,
            Err(m) => {
                mon.violation(&format!("panic:{}:{}", sname, e.name()), "wrapper entry point panicked", detail("no-panic", json!({"panic": m})));
                continue;
            }
        };
        mon.count(&format!("value.cell.{}.{}", layers.last().map(|l| l.name()).unwrap_or("bare"), e.name()));
        let axis_only = e.is_5dof() || rp.dof == 5;
        for s in &sols {
            let got = ref_forward(&rp, &layers, s);
            let dp = pos_dist(&got, &target);
            let dr = if axis_only { 0.0 } else { rot_angle(&got.r, &target.r) };
            // the solver's 1e-6 rad is amplified by the lever arm of the tool-side transforms
            let lever: f64 = layers.iter().map(|l| match l { Layer::Tool(f) | Layer::Frame(f) => norm(f.p), _ => 0.0 }).sum();
            if !(dp <= 1e-6 * (1.0 + lever) + 1e-9 + 1e-12 * reach && dr <= 1e-6 + 1e-9) {
                mon.violation(&format!("inverse-does-not-map-back:{}:{}", sname, e.name()), "an inverse answer does not map back through the stack onto the request", detail("map-back", json!({"entry": e.name(), "solution": jf(s), "dp": dp, "dr": dr, "tool_point_only": axis_only})));
            } else {
                mon.held();
            }
            if e.is_5dof() {
                let want = if e == Entry::FiveDof { j6 } else { prev[5] };
                if s[5] != want {
                    mon.violation(&format!("j6-not-passed-through:{}:{}", sname, e.name()), "5-DOF variant through the stack does not return the caller's J6", detail("j6", json!({"entry": e.name(), "solution": jf(s), "expected_j6": want})));
                } else {
                    mon.held();
                }
            }
        }
        if e.is_continuing() {
            let upto = if axis_only { 5 } else { 6 };
            let mut ok = true;
            for s in &sols {
                if (0..upto).any(|j| (s[j] - prev[j]).abs() > PI + 1e-9) {
                    ok = false;
                }
            }
            for k in 1..sols.len() {
                let c0: f64 = (0..6).map(|j| (sols[k - 1][j] - prev[j]).abs()).sum();
                let c1: f64 = (0..6).map(|j| (sols[k][j] - prev[j]).abs()).sum();
                if c0 > c1 + 1e-9 {
                    ok = false;
                }
            }
            if !ok {
                mon.violation(&format!("continuation-contract-lost:{}:{}", sname, e.name()), "continuation ordering / nearest representative does not hold at the outermost level of the stack", detail("continuation", json!({"entry": e.name(), "prev": jf(&prev), "answers": sols.iter().map(|s| jf(s)).collect::<Vec<_>>()})));
            } else {
                mon.held();
            }
        }
    }
}

fn bits_eq(a: &[f64; 6], b: &[f64; 6]) -> bool {
    (0..6).all(|j| a[j].to_bits() == b[j].to_bits())
}

fn delegation(idx: u64, rng: &mut Rng, mon: &mut Mon) {
    let robot = gen_robot(rng, idx, RobotMode::NonDegenerate, 0.0);
    let rp = robot.rp;
    // depth 1 is the exhaustive per-wrapper matrix (3 wrappers round-robin); deeper stacks check composition
    let depth = if idx % 2 == 0 { 1 } else { 2 + rng.usize(2) };
    let layers = if depth == 1 { gen_stack(rng, 1, false, &[["Tool", "Base", "Frame"][(idx / 2 % 3) as usize]]) } else { gen_stack(rng, depth, false, &["Tool", "Base", "Frame"]) };
    let sname = stack_name(&layers);
    let real: Arc<dyn Kinematics> = Arc::new(OPWKinematics::new_with_constraints(to_params(&rp), rs_opw_kinematics::constraints::Constraints::new([-3.0; 6], [3.0; 6], 0.0)));
    let spy = Arc::new(Spy::new(real.clone()));
    let kin = build(spy.clone(), &layers);
    let q = joints_uniform(rng, PI);
    let request = ref_forward(&rp, &layers, &q);
    let pose = fr_to_iso(&request);
    // analytically transformed request: undo layers from the outermost inwards
    let mut inner_req = request;
    for l in layers.iter().rev() {
        match l {
            Layer::Tool(x) | Layer::Frame(x) => inner_req = inner_req.mul(&x.inv()),
            Layer::Base(x) => inner_req = x.inv().mul(&inner_req),
            _ => {}
        }
    }
    let reach = stack_reach(&rp, &layers);
    let tol = 1e-11 * (1.0 + reach);
    let prev = if rng.bool(0.2) { rs_opw_kinematics::kinematic_traits::CONSTRAINT_CENTERED } else { joints_uniform(rng, 2.0 * PI) };
    let j6 = rng.range(-10.0, 10.0);
    for m in ALL_METHODS {
        spy.clear();
        let detail = |what: &str, extra: serde_json::Value| json!({"robot": robot_json(&robot), "stack": stack_json(&layers), "method": m.name(), "q": jf(&q), "prev": jf(&prev), "j6": j6, "clause": what, "extra": extra});
        let sig = |what: &str| format!("delegation:{}:{}:{}", what, if depth == 1 { sname.clone() } else { format!("depth{}", depth) }, m.name());
        // call the wrapper, remember the result in a comparable form
        let outer_sols: Option<Vec<[f64; 6]>> = match m {
            Method::Inverse => Some(kin.inverse(&pose)),
            Method::Continuing => Some(kin.inverse_continuing(&pose, &prev)),
            Method::FiveDof => Some(kin.inverse_5dof(&pose, j6)),
            Method::Continuing5 => Some(kin.inverse_continuing_5dof(&pose, &prev)),
            _ => None,
        };
        let outer_fwd = if m == Method::Forward { Some(kin.forward(&q)) } else { None };
        let outer_links = if m == Method::Links { Some(kin.forward_with_joint_poses(&q)) } else { None };
        let outer_sing = if m == Method::Singularity { Some(kin.kinematic_singularity(&q).is_some()) } else { None };
        let outer_cons = if m == Method::Constraints { Some(kin.constraints().map(|c| (c.from, c.to))) } else { None };
        let ev = spy.take();
        mon.count("delegation.matrix_cells");
        mon.count(&format!("delegation.cell.{}.{}", if depth == 1 { sname.as_str() } else { "deep" }, m.name()));
        if ev.len() != 1 || ev[0].method != m {
            mon.violation(&sig("wrong-inner-call"), "wrapper did not make exactly one inner call of the same method", detail("one-same-call", json!({"inner_calls": ev.iter().map(|e| e.method.name()).collect::<Vec<_>>()})));
            continue;
        }
        let e = &ev[0];
        let mut ok = true;
        // arguments
        if let Some(p) = &e.pose {
            let got = iso_to_fr(p);
            let (dp, dr) = (pos_dist(&got, &inner_req), rot_angle(&got.r, &inner_req.r));
            if !(dp <= tol && dr <= 1e-11) {
                ok = false;
                mon.violation(&sig("pose-argument"), "pose passed to the wrapped robot is not the analytically transformed request", detail("pose-arg", json!({"dp": dp, "dr": dr})));
            }
        }
        match m {
            Method::Continuing | Method::Continuing5 => {
                if !bits_eq(&e.joints.unwrap(), &prev) {
                    ok = false;
                    mon.violation(&sig("previous-argument"), "previous joints were not passed unchanged", detail("prev-arg", json!({"passed": jf(&e.joints.unwrap())})));
                }
            }
            Method::FiveDof => {
                if e.j6.unwrap().to_bits() != j6.to_bits() {
                    ok = false;
                    mon.violation(&sig("j6-argument"), "J6 was not passed unchanged", detail("j6-arg", json!({"passed": e.j6})));
                }
            }
            Method::Forward | Method::Links | Method::Singularity => {
                if !bits_eq(&e.joints.unwrap(), &q) {
                    ok = false;
                    mon.violation(&sig("joints-argument"), "joints were not passed unchanged", detail("joints-arg", json!({"passed": jf(&e.joints.unwrap())})));
                }
            }
            _ => {}
        }
        // results passed through
        if let Some(o) = &outer_sols {
            let p = e.pose.unwrap();
            let direct = match m {
                Method::Inverse => real.inverse(&p),
                Method::Continuing => real.inverse_continuing(&p, &prev),
                Method::FiveDof => real.inverse_5dof(&p, j6),
                _ => real.inverse_continuing_5dof(&p, &prev),
            };
            if o.len() != direct.len() || !o.iter().zip(direct.iter()).all(|(a, b)| bits_eq(a, b)) {
                ok = false;
                mon.violation(&sig("result-not-passed-through"), "wrapper altered the wrapped robot's answers", detail("result", json!({"outer": o.iter().map(|s| jf(s)).collect::<Vec<_>>(), "inner": direct.iter().map(|s| jf(s)).collect::<Vec<_>>()})));
            }
        }
        if let Some(f) = &outer_fwd {
            let want = ref_forward(&rp, &layers, &q);
            let got = iso_to_fr(f);
            if !(pos_dist(&got, &want) <= tol && rot_angle(&got.r, &want.r) <= 1e-11) {
                ok = false;
                mon.violation(&sig("forward-result"), "forward result is not the composed transform of the wrapped result", detail("forward", json!({})));
            }
        }
        if let Some(l) = &outer_links {
            let want = ref_links(&rp, &layers, &q);
            for i in 0..6 {
                let got = iso_to_fr(&l[i]);
                if !(pos_dist(&got, &want[i]) <= tol && rot_angle(&got.r, &want[i].r) <= 1e-11) {
                    ok = false;
                    mon.violation(&sig("links-result"), "link poses are not the composed transform of the wrapped result", detail("links", json!({"link": i + 1})));
                    break;
                }
            }
        }
        if let Some(s) = outer_sing {
            if s != real.kinematic_singularity(&q).is_some() {
                ok = false;
                mon.violation(&sig("singularity-result"), "singularity report differs from the wrapped robot's", detail("singularity", json!({})));
            }
        }
        if let Some(c) = outer_cons {
            let want = real.constraints().map(|c| (c.from, c.to));
            if c != want {
                ok = false;
                mon.violation(&sig("constraints-result"), "constraints() differs from the wrapped robot's", detail("constraints", json!({})));
            }
        }
        if ok {
            mon.held();
            mon.nontrivial(hash_combine(hash_combine(robot_hash(&robot), hash_f64s(&q)), crate::rng::hash_str(&sname) ^ (m as u64 + 1)));
        }
    }
    if idx < 1 {
        mon.sample(json!({"kind": "delegation", "stack": stack_json(&layers), "methods": ALL_METHODS.iter().map(|m| m.name()).collect::<Vec<_>>()}));
    }
}

fn axes(idx: u64, rng: &mut Rng, mon: &mut Mon) {
    let robot = gen_robot(rng, idx, RobotMode::NonDegenerate, 0.0);
    let rp = robot.rp;
    let layers = gen_stack(rng, rng.clone().usize(3), false, &["Tool", "Base", "Frame"]);
    let _ = rng.next_u64();
    let inner = build(Arc::new(OPWKinematics::new(to_params(&rp))), &layers);
    let base = random_fr(rng, 2.0);
    let q = joints_uniform(rng, PI);
    let inner_ref = ref_forward(&rp, &layers, &q);
    let reach = stack_reach(&rp, &layers) + norm(base.p) + 10.0;
    let tol = 1e-11 * (1.0 + reach);
    let detail = |what: &str, extra: serde_json::Value| json!({"robot": robot_json(&robot), "stack": stack_json(&layers), "base": {"r": base.r, "p": base.p}, "q": jf(&q), "clause": what, "extra": extra});
    for axis in 0..3u32 {
        let d = rng.range(-5.0, 5.0);
        let la = LinearAxis::verif_new(inner.clone(), axis, fr_to_iso(&base));
        let got = iso_to_fr(&la.forward(d, &q));
        let mut t = [0.0; 3];
        t[axis as usize] = d;
        let want = base.mul(&Fr::new(I3, t)).mul(&inner_ref);
        mon.count("axes.checked");
        if !(pos_dist(&got, &want) <= tol && rot_angle(&got.r, &want.r) <= 1e-11) {
            mon.violation(&format!("linear-axis-forward:axis{}", axis), "LinearAxis::forward differs from base*translation*inner forward", detail("linear-axis", json!({"axis": axis, "distance": d, "dp": pos_dist(&got, &want)})));
        } else {
            mon.held();
        }
    }
    let t = [rng.range(-5.0, 5.0), rng.range(-5.0, 5.0), rng.range(-5.0, 5.0)];
    let g = Gantry::verif_new(inner.clone(), fr_to_iso(&base));
    let got = iso_to_fr(&g.forward(&Translation3::new(t[0], t[1], t[2]), &q));
    let want = base.mul(&Fr::new(I3, t)).mul(&inner_ref);
    mon.count("axes.checked");
    if !(pos_dist(&got, &want) <= tol && rot_angle(&got.r, &want.r) <= 1e-11) {
        mon.violation("gantry-forward", "Gantry::forward differs from base*translation*inner forward", detail("gantry", json!({"translation": t, "dp": pos_dist(&got, &want)})));
    } else {
        mon.held();
        mon.nontrivial(hash_combine(robot_hash(&robot), hash_f64s(&t)));
    }
    if idx < 1 {
        mon.sample(json!({"kind": "axes", "stack": stack_json(&layers), "gantry_translation": t}));
    }
}
