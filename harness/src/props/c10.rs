//! C10 — collision verdicts equal a brute-force pairwise check at the safety distances.

use crate::cell::*;
use crate::gen::*;
use crate::mesh::RMesh;
use crate::refmodel::{rotz, Fr, RParams, I3};
use crate::report::{hash_combine, hash_f64s, jf, Mon};
use crate::rng::Rng;
use crate::{Kind, Prop, Spec, Tier};
use rs_opw_kinematics::collisions::{CheckMode, NEVER_COLLIDES};
use rs_opw_kinematics::kinematic_traits::{ENV_START_IDX, J_BASE, J_TOOL};
use serde_json::json;
use std::collections::{BTreeMap, BTreeSet};
use std::f64::consts::PI;
use std::sync::{Arc, Mutex};

pub fn prop() -> Prop {
    Prop { id: "C10", spec, run_case, finalize: None }
}

fn spec() -> Spec {
    Spec {
        kinds: vec![
            Kind { name: "verdicts", quick: 6_000, thorough: 400_000, serial: false },
            Kind { name: "schedules", quick: 60, thorough: 2_000, serial: true },
            Kind { name: "rx160", quick: 48, thorough: 1_500, serial: false },
            Kind { name: "shared_history", quick: 1_500, thorough: 60_000, serial: false },
        ],
        rule: "verdicts: synthetic cell (box links overlapping at the joints, vertex counts anti-correlated with size, with/without tool and base, 0..3 environment boxes of which most are placed at a designed gap d = r*u, u in [0,2], from a link or the tool) x safety table (touch-only, positive distances with to_environment != to_robot_default, per-pair overrides in both key orders, NEVER_COLLIDES on random pairs incl. pairs naming J1, J_BASE, J_TOOL and environment ids) x mode x posture; collision_details, collides and near(q, other table) are compared with the brute-force triangle/triangle oracle over the property's relevant pair list. schedules: the same query in rayon pools of 1,2,3,4,8,16 threads x repeats x injected delays at task boundaries, results must be identical; the hook event log must show exactly the relevant non-exempt pairs evaluated in all-collisions mode. non-trivial = at least one pair colliding and one free; distinct = hash(cell, posture, table) Workload additions: obstacle meshes modelled away from their local origin; touch-only written as +0.0 or -0.0; a seventh of the tables without any positive distance (0 / NEVER_COLLIDES overrides only); a sixth of the bases replaced by a box at a designed gap from a link or the tool (a third of those pairs exempt); kind shared_history = cells sharing the robot but differing in table / mode / one obstacle asked the same joint vector alternately. Round 10: cells that differ in where the robot or one obstacle stands; half of the histories overwrite the public fields of ONE robot object in place between the queries; obstacles that are flat axis-aligned plates.",
        assumptions: vec![
            "band = 1e-4 m + 1e-5*reach around each threshold is ambiguous (library places meshes in f32, oracle in f64); in touch mode a body wholly inside another without surface contact is ambiguous (parry meshes are surfaces)",
            "tables never contain both key orders of one pair with different values",
        ],
        minimums: vec![("oracle_evals", 100_000, 5_000_000), ("pairs.colliding", 10_000, 500_000), ("pairs.free", 50_000, 2_500_000), ("pairs.exempt", 2_000, 100_000), ("hook.tasks_observed", 5_000, 150_000), ("history.steps", 6_000, 250_000), ("history.in_place", 300, 12_000), ("cells.with_flat_plate", 250, 15_000)],
    }
}

pub fn category(a: usize, b: usize) -> &'static str {
    let (a, b) = key(a, b);
    if b >= ENV_START_IDX {
        if a == J_TOOL { "tool-env" } else if a == J_BASE { "base-env" } else { "link-env" }
    } else if b == J_BASE {
        if a == J_TOOL { "tool-base" } else { "base-link" }
    } else if b == J_TOOL {
        "tool-link"
    } else {
        "link-link"
    }
}

fn mode_name(m: CheckMode) -> &'static str {
    match m {
        CheckMode::FirstCollisionOnly => "first",
        CheckMode::AllCollsions => "all",
        CheckMode::NoCheck => "nocheck",
    }
}

pub fn gen_posture(rng: &mut Rng) -> [f64; 6] {
    match rng.usize(3) {
        0 => joints_uniform(rng, PI),
        1 => {
            // near upright, mild bends: few self collisions
            let mut q = [0.0; 6];
            for j in 0..6 {
                q[j] = rng.range(-0.6, 0.6);
            }
            q[0] = rng.range(-PI, PI);
            q
        }
        _ => {
            let mut q = joints_uniform(rng, 1.2);
            q[0] = rng.range(-PI, PI);
            q[3] = rng.range(-PI, PI);
            q[5] = rng.range(-PI, PI);
            q
        }
    }
}

/// Full scenario: cell with obstacles, safety table, posture.
pub fn gen_scenario(rng: &mut Rng, idx: u64, mode: CheckMode) -> (Cell, [f64; 6]) {
    let with_tool = rng.bool(0.7);
    let with_base = rng.bool(0.7);
    // two thirds coarse cells (every triangle edge >= 5 cm), one third fine meshes
    let fine = rng.usize(3) == 0;
    let mut cell = Cell::generate(rng, idx, with_tool, with_base, fine);
    // user-facing joints: undo signs/offsets so that the model posture is the generated one
    let t = gen_posture(rng);
    let q = cell.robot.rp.from_theta(&t);
    let n_env = rng.usize(4);
    for _ in 0..n_env {
        cell.add_random_obstacle(rng);
    }
    cell.safety = cell.random_safety(rng, mode);
    // replace most obstacles by designed ones
    let band = cell.band();
    for k in 0..n_env {
        if rng.bool(0.8) {
            let target = if with_tool && rng.bool(0.3) { J_TOOL } else { rng.usize(6) };
            let r = cell.safety.lookup(target, ENV_START_IDX + k);
            let d = if r <= NEVER_COLLIDES {
                rng.range(-0.01, 0.02)
            } else if r == 0.0 {
                rng.sign() * rng.logu(3.0 * band, 0.04)
            } else {
                let r = r as f64;
                let mut d = r * rng.range(0.0, 2.0);
                if (d - r).abs() < 3.0 * band {
                    d = r + 3.0 * band * rng.sign();
                }
                d
            };
            let saved = cell.env.clone();
            cell.env.truncate(0);
            let i = cell.add_designed_obstacle(rng, &q, target, d);
            let designed = cell.env[i].clone();
            cell.env = saved;
            cell.env[k] = designed;
        }
    }
    // a sixth of the cells with a base: the base mesh itself is a designed box next to a link (2..6) or the tool
    // at this posture, so that base-link and tool-base pairs are decided as sharply as the environment pairs
    if with_base && rng.bool(0.17) {
        let target = if with_tool && rng.bool(0.5) { J_TOOL } else { 1 + rng.usize(5) };
        // (a third of these pairs is exempt: the designed contact must then NOT be reported)
        if rng.bool(0.33) {
            cell.safety.special.retain(|((a, b), _)| crate::cell::key(*a, *b) != crate::cell::key(target, J_BASE));
            cell.safety.special.push((if rng.bool(0.5) { (target, J_BASE) } else { (J_BASE, target) }, NEVER_COLLIDES));
        }
        let r = cell.safety.lookup(target, J_BASE);
        let d = if r <= NEVER_COLLIDES {
            rng.range(-0.02, 0.01)
        } else if r == 0.0 {
            rng.sign() * rng.logu(3.0 * band, 0.04)
        } else {
            let r = r as f64;
            let mut d = r * rng.range(0.0, 2.0);
            if (d - r).abs() < 3.0 * band {
                d = r + 3.0 * band * rng.sign();
            }
            d
        };
        cell.design_base(rng, &q, target, d);
    }
    (cell, q)
}

pub fn oracle_json(o: &Oracle) -> serde_json::Value {
    serde_json::Value::Array(o.pairs.iter().map(|((a, b), i)| json!([a, b, format!("{:?}", i.verdict), if i.dist.is_finite() { json!(i.dist) } else { json!(null) }, i.r, i.intersects])).collect())
}

/// What parry3d itself answers for one pair, placed exactly as the library places it (f32 poses).
pub fn parry_raw(cell: &Cell, q: &[f64; 6], a: usize, b: usize) -> (bool, f32) {
    let fr = cell.link_frames(q);
    let get = |id: usize| -> (parry3d::shape::TriMesh, nalgebra::Isometry3<f32>) {
        if id < 6 {
            (cell.links[id].to_trimesh(), fr_to_iso(&fr[id]).cast::<f32>())
        } else if id == J_TOOL {
            (cell.tool.as_ref().unwrap().to_trimesh(), fr_to_iso(&fr[5]).cast::<f32>())
        } else if id == J_BASE {
            (cell.base.as_ref().unwrap().to_trimesh(), fr_to_iso(&cell.base_tf).cast::<f32>())
        } else {
            let (m, f) = &cell.env[id - ENV_START_IDX];
            (m.to_trimesh(), fr_to_iso(f).cast::<f32>())
        }
    };
    let (ma, pa) = get(a);
    let (mb, pb) = get(b);
    let it = parry3d::query::intersection_test(&pa, &ma, &pb, &mb).unwrap_or(false);
    let d = parry3d::query::distance(&pa, &ma, &pb, &mb).unwrap_or(f32::NAN);
    (it, d)
}

/// Signature of a missed collision. parry3d's GJK based triangle/triangle queries (f32) are
/// unreliable for triangles with edges below ~2.5 cm: crossing triangles are reported apart and
/// distances are overestimated by up to millimetres (finding F1). A miss is attributed to F1 only
/// if (a) one of the two meshes has such small triangles AND (b) parry3d's own raw query for the
/// pair, asked directly by the monitor, gives the wrong answer; then the library's pair
/// enumeration, exemption, pre-filter and threshold logic cannot be the cause. Every other miss
/// keeps its own signature.
pub fn miss_signature(cell: &Cell, q: &[f64; 6], api: &str, a: usize, b: usize, info: &PairInfo) -> String {
    if info.min_leg < 0.03 {
        let (raw_hit, raw_d) = parry_raw(cell, q, a, b);
        let dependency_misses_it = if info.r == 0.0 { !raw_hit } else { !(raw_d <= info.r) };
        if dependency_misses_it {
            return "missed-collision:intersecting-small-triangles(parry)".to_string();
        }
    }
    format!("{}:missed-collision:{}:{}", api, category(a, b), if info.r == 0.0 { "touch" } else { "distance" })
}

pub struct Judged {
    pub violations: Vec<(String, String, serde_json::Value)>,
    pub conclusive: bool,
}

/// Compare a reported pair list with the oracle under `mode`.
pub fn judge_report(cell: &Cell, q: &[f64; 6], oracle: &Oracle, reported: &[(usize, usize)], mode: CheckMode, api: &str) -> Judged {
    let mut v = vec![];
    let colliding = oracle.set(Verdict::Colliding);
    let ambiguous = oracle.set(Verdict::Ambiguous);
    let relevant: BTreeSet<(usize, usize)> = cell.relevant_pairs().into_iter().map(|(a, b)| key(a, b)).collect();
    let mut seen = BTreeSet::new();
    for &(a, b) in reported {
        if a > b {
            v.push((format!("{}:pair-not-ordered", api), "reported pair does not list the smaller id first".to_string(), json!({"pair": [a, b]})));
        }
        let k = key(a, b);
        if !seen.insert(k) {
            v.push((format!("{}:duplicate-pair", api), "a pair is reported twice".to_string(), json!({"pair": [a, b]})));
        }
        if !relevant.contains(&k) {
            v.push((format!("{}:irrelevant-pair-reported:{}", api, category(a, b)), "a pair outside the relevant pair list (adjacent links, tool vs J5/J6, base vs J1, ...) is reported".to_string(), json!({"pair": [a, b]})));
            continue;
        }
        match oracle.pairs[&k].verdict {
            Verdict::Exempt => v.push((format!("{}:exempt-pair-reported:{}", api, category(a, b)), "a pair marked never-colliding is reported".to_string(), json!({"pair": [a, b]}))),
            Verdict::Free => v.push((
                format!("{}:false-collision:{}:{}", api, category(a, b), if oracle.pairs[&k].r == 0.0 { "touch" } else { "distance" }),
                "a pair that is farther apart than its safety distance is reported".to_string(),
                json!({"pair": [a, b], "distance": oracle.pairs[&k].dist, "r": oracle.pairs[&k].r}),
            )),
            _ => {}
        }
    }
    match mode {
        CheckMode::NoCheck => {
            if !reported.is_empty() {
                v.push((format!("{}:nocheck-reports", api), "no-check mode reported pairs".to_string(), json!({"reported": reported.len()})));
            }
        }
        CheckMode::AllCollsions => {
            for k in &colliding {
                if !seen.contains(k) {
                    v.push((
                        miss_signature(cell, q, api, k.0, k.1, &oracle.pairs[k]),
                        "a pair closer than its safety distance is not reported in all-collisions mode".to_string(),
                        json!({"pair": [k.0, k.1], "distance": oracle.pairs[k].dist, "r": oracle.pairs[k].r}),
                    ));
                }
            }
        }
        CheckMode::FirstCollisionOnly => {
            if reported.len() > 1 {
                v.push((format!("{}:first-mode-many", api), "first-collision mode reported more than one pair".to_string(), json!({"reported": reported.len()})));
            }
            if !colliding.is_empty() && reported.is_empty() {
                let k = colliding.iter().next().unwrap();
                // attribute to the strongest evidence: a pair that is not a small-triangle intersection, if any
                let k = colliding.iter().find(|k| !miss_signature(cell, q, api, k.0, k.1, &oracle.pairs[*k]).ends_with("(parry)")).unwrap_or(k);
                v.push((
                    miss_signature(cell, q, api, k.0, k.1, &oracle.pairs[k]),
                    "colliding pairs exist but first-collision mode reported nothing".to_string(),
                    json!({"pair": [k.0, k.1], "distance": oracle.pairs[k].dist, "r": oracle.pairs[k].r, "colliding": pairs_json(&colliding)}),
                ));
            }
        }
    }
    Judged { violations: v, conclusive: ambiguous.is_empty() }
}

fn run_case(kind: &str, idx: u64, rng: &mut Rng, mon: &mut Mon, _tier: Tier) {
    match kind {
        "verdicts" => verdicts(idx, rng, mon),
        "schedules" => schedules(idx, rng, mon),
        "shared_history" => shared_history(idx, rng, mon),
        _ => rx160(idx, rng, mon),
    }
}

struct Rx160 {
    links: [RMesh; 6],
    base: RMesh,
    tool: RMesh,
    monolith: RMesh,
}

static RX160: std::sync::OnceLock<Rx160> = std::sync::OnceLock::new();

#[allow(deprecated)]
fn rx160_meshes() -> &'static Rx160 {
    RX160.get_or_init(|| {
        let dir = "/repo/src/tests/data";
        let stl = |p: &str| RMesh::from_trimesh(&rs_opw_kinematics::read_trimesh::load_trimesh_from_stl(&format!("{}/{}", dir, p)));
        Rx160 {
            links: std::array::from_fn(|i| stl(&format!("staubli/rx160/link_{}.stl", i + 1))),
            base: stl("staubli/rx160/base_link.stl"),
            tool: RMesh::from_trimesh(&rs_opw_kinematics::read_trimesh::load_trimesh_from_ply(&format!("{}/flag.ply", dir))),
            monolith: stl("object.stl"),
        }
    })
}

/// The cell of examples/complete_visible_robot.rs (bundled Staubli RX160 STL meshes, flag tool,
/// monolith obstacles), with randomised obstacle positions, safety tables and postures.
fn rx160(idx: u64, rng: &mut Rng, mon: &mut Mon) {
    use rs_opw_kinematics::kinematic_traits::{J2, J3, J4, J6};
    let m = rx160_meshes();
    let rp = RParams { a1: 0.15, a2: 0.0, b: 0.0, c1: 0.55, c2: 0.825, c3: 0.625, c4: 0.11, offsets: [0.0; 6], signs: [1; 6], dof: 6 };
    let mode = pick_mode(rng);
    let example_table = SafetySpec {
        to_environment: 0.05,
        to_robot_default: 0.05,
        special: vec![((J2, J_BASE), NEVER_COLLIDES), ((J3, J_BASE), NEVER_COLLIDES), ((J2, J4), NEVER_COLLIDES), ((J3, J4), NEVER_COLLIDES), ((J4, J_TOOL), 0.02), ((J4, J6), 0.02)],
        mode,
    };
    let mut cell = Cell {
        robot: Robot { rp, class: "rx160", sign_pattern: 0, offset_class: "none" },
        links: m.links.clone(),
        tool: Some(m.tool.clone()),
        tool_tf: Fr::new(I3, [0.0, 0.0, 0.5]),
        base: Some(m.base.clone()),
        base_tf: Fr::new(I3, [0.4, 0.7, 0.0]),
        env: vec![],
        safety: example_table.clone(),
        constraints: rs_opw_kinematics::constraints::Constraints::new([-3.9; 6], [3.9; 6], 0.0),
        scale: rp.reach(),
        fine: true,
    };
    // four monoliths as in the example, two of them moved to a random place inside the workspace
    for (k, p) in [[1.0, 0.0, 0.0], [-1.0, 0.0, 0.0], [0.0, 1.0, 0.0], [0.0, -1.0, 0.0]].iter().enumerate() {
        let pose = if k < 2 { Fr::new(I3, *p) } else { Fr::new(rotz(rng.range(-3.0, 3.0)), [0.4 + rng.range(-1.2, 1.2), 0.7 + rng.range(-1.2, 1.2), rng.range(0.0, 1.2)]) };
        cell.env.push((m.monolith.clone(), pose));
    }
    if rng.bool(0.4) {
        cell.safety = cell.random_safety(rng, mode);
    }
    let q = gen_posture(rng);
    let robot = cell.build();
    let oracle = cell.oracle(&q, &cell.safety);
    count_oracle(mon, &oracle);
    mon.count("rx160.postures");
    let rep = robot.collision_details(&q);
    let j = judge_report(&cell, &q, &oracle, &rep, mode, "collision_details");
    for (sig, what, ex) in &j.violations {
        mon.violation(&format!("rx160:{}", sig).replace("rx160:missed-collision:intersecting-small-triangles(parry)", "missed-collision:intersecting-small-triangles(parry)"), what, json!({"cell": "bundled RX160 meshes as in examples/complete_visible_robot.rs", "env": cell.env.iter().map(|(_, f)| json!({"r": f.r, "p": f.p})).collect::<Vec<_>>(), "safety": cell.safety.json(), "q": jf(&q), "reported": rep, "finding": ex, "oracle": oracle_json(&oracle)}));
    }
    if j.violations.is_empty() {
        mon.held_n(oracle.pairs.len() as u64);
    }
    let nc = oracle.set(Verdict::Colliding).len();
    if nc > 0 && !oracle.set(Verdict::Free).is_empty() {
        mon.nontrivial(hash_combine(idx, hash_f64s(&q)));
    }
    if idx < 1 {
        mon.sample(json!({"kind": "rx160", "q": jf(&q), "safety": cell.safety.json(), "reported": rep, "oracle_colliding": pairs_json(&oracle.set(Verdict::Colliding))}));
    }
}

fn pick_mode(rng: &mut Rng) -> CheckMode {
    match rng.usize(10) {
        0 => CheckMode::NoCheck,
        1..=4 => CheckMode::FirstCollisionOnly,
        _ => CheckMode::AllCollsions,
    }
}

fn count_oracle(mon: &mut Mon, o: &Oracle) {
    for ((a, b), info) in &o.pairs {
        let (v, r) = (&info.verdict, &info.r);
        let name = match v {
            Verdict::Colliding => "colliding",
            Verdict::Free => "free",
            Verdict::Ambiguous => "ambiguous",
            Verdict::Exempt => "exempt",
        };
        mon.count(&format!("pairs.{}", name));
        mon.count(&format!("pairs.{}.{}.{}", category(*a, *b), if *r <= NEVER_COLLIDES { "never" } else if *r == 0.0 { "touch" } else { "distance" }, name));
    }
}

fn verdicts(idx: u64, rng: &mut Rng, mon: &mut Mon) {
    let mode = pick_mode(rng);
    let (mut cell, q) = gen_scenario(rng, idx, mode);
    // (a tenth of the cells additionally has a floor / wall: a flat plate exactly aligned with the world axes)
    if rng.bool(0.1) {
        let target = rng.usize(6);
        cell.add_plate(rng, &q, target);
        mon.count("cells.with_flat_plate");
    }
    let robot = cell.build();
    let oracle = cell.oracle(&q, &cell.safety);
    count_oracle(mon, &oracle);
    mon.count(&format!("mode.{}", mode_name(mode)));
    mon.count(&format!("cell.tool={}.base={}.env={}", cell.tool.is_some(), cell.base.is_some(), cell.env.len()));
    mon.count(if cell.fine { "cells.fine_mesh" } else { "cells.coarse_mesh" });
    let detail = |extra: serde_json::Value| json!({"cell": cell.json(), "q": jf(&q), "mode": mode_name(mode), "extra": extra,
        "oracle": oracle_json(&oracle)});
    let nc = oracle.set(Verdict::Colliding).len();
    let nf = oracle.set(Verdict::Free).len();
    if nc > 0 && nf > 0 {
        mon.nontrivial(hash_combine(crate::props::robot_hash(&cell.robot), hash_f64s(&q)));
    }
    // collision_details
    let rep = robot.collision_details(&q);
    let j = judge_report(&cell, &q, &oracle, &rep, mode, "collision_details");
    for (sig, what, ex) in &j.violations {
        mon.violation(sig, what, detail(json!({"reported": rep, "finding": ex})));
    }
    if j.violations.is_empty() {
        mon.held_n(oracle.pairs.len() as u64);
    }
    // collides
    let c = robot.collides(&q);
    let expect_true = nc > 0 && mode != CheckMode::NoCheck;
    let expect_false = mode == CheckMode::NoCheck || (nc == 0 && !oracle.any_ambiguous());
    if expect_true && !c {
        let cs = oracle.set(Verdict::Colliding);
        let k = *cs.iter().find(|k| !miss_signature(&cell, &q, "collides", k.0, k.1, &oracle.pairs[*k]).ends_with("(parry)")).unwrap_or(cs.iter().next().unwrap());
        mon.violation(&miss_signature(&cell, &q, "collides", k.0, k.1, &oracle.pairs[&k]), "collides() is false although a relevant pair is closer than its safety distance", detail(json!({"pair": [k.0, k.1]})));
    } else if expect_false && c {
        mon.violation(&format!("collides:false-collision:{}", mode_name(mode)), "collides() is true although every relevant pair is free (or checking is off)", detail(json!({})));
    } else if expect_true || expect_false {
        mon.held();
    } else {
        mon.inconclusive("collides:only-ambiguous-pairs");
    }
    // near() with another table and mode
    let mode2 = pick_mode(rng);
    let s2 = cell.random_safety(rng, mode2);
    let o2 = cell.oracle(&q, &s2);
    let rep2 = robot.near(&q, &s2.build());
    let j2 = judge_report(&cell, &q, &o2, &rep2, mode2, "near");
    for (sig, what, ex) in &j2.violations {
        mon.violation(sig, what, json!({"cell": cell.json(), "q": jf(&q), "near_table": s2.json(), "reported": rep2, "finding": ex,
            "oracle": oracle_json(&o2)}));
    }
    if j2.violations.is_empty() {
        mon.held_n(o2.pairs.len() as u64);
    }
    mon.count("near.calls");
    if idx < 2 {
        mon.sample(json!({"kind": "verdicts", "q": jf(&q), "mode": mode_name(mode), "safety": cell.safety.json(), "reported": rep, "oracle_colliding": pairs_json(&oracle.set(Verdict::Colliding)), "relevant_pairs": oracle.pairs.len()}));
    }
}

/// History workload: two or three cells that share the robot and its meshes but differ in the safety
/// table, the mode, one obstacle or the tool are asked about bit-identical joint vectors one after the
/// other (A, B, A, ...), mixing collision_details / collides / near; each answer is judged by that
/// cell's own oracle. A report may depend on the body, the table and the joint vector only.
fn shared_history(idx: u64, rng: &mut Rng, mon: &mut Mon) {
    let mode = pick_mode(rng);
    let (first, q) = gen_scenario(rng, idx, mode);
    let mut cells = vec![first.clone()];
    for _ in 0..(1 + rng.usize(2)) {
        let mut c = first.clone();
        match rng.usize(6) {
            0 => {
                let m = pick_mode(rng);
                c.safety = c.random_safety(rng, m);
            }
            1 if !c.env.is_empty() => {
                let k = rng.usize(c.env.len());
                c.env.remove(k);
            }
            2 => {
                let target = rng.usize(6);
                let d = rng.range(-0.03, 0.0);
                c.add_designed_obstacle(rng, &q, target, d);
            }
            3 => c.safety.mode = if c.safety.mode == CheckMode::AllCollsions { CheckMode::FirstCollisionOnly } else { CheckMode::AllCollsions },
            // the robot stands elsewhere in the cell (by millimetres or by metres)
            4 if c.base.is_some() => {
                let d = rng.logu(1e-3, 3.0);
                for k in 0..3 {
                    c.base_tf.p[k] += rng.range(-1.0, 1.0) * d;
                }
            }
            // one obstacle stands elsewhere, the number of obstacles is unchanged
            _ if !c.env.is_empty() => {
                let k = rng.usize(c.env.len());
                let d = rng.logu(1e-3, 1.0);
                for a in 0..3 {
                    c.env[k].1.p[a] += rng.range(-1.0, 1.0) * d;
                }
            }
            _ => {
                let m = pick_mode(rng);
                c.safety = c.random_safety(rng, m);
            }
        }
        cells.push(c);
    }
    let robots: Vec<_> = cells.iter().map(|c| c.build()).collect();
    // Half of the histories edit ONE robot in place instead of keeping one object per cell: the body and the base
    // transform of a by-value Base wrapper (all public fields) are overwritten before each query, so consecutive queries
    // see the same objects at the same addresses with other contents.
    let in_place = rng.bool(0.5);
    let inner: Arc<dyn rs_opw_kinematics::kinematic_traits::Kinematics> = {
        let bare: Arc<dyn rs_opw_kinematics::kinematic_traits::Kinematics> = Arc::new(rs_opw_kinematics::kinematics_impl::OPWKinematics::new_with_constraints(crate::gen::to_params(&first.robot.rp), first.constraints));
        if first.tool.is_some() { Arc::new(rs_opw_kinematics::tool::Tool { robot: bare, tool: crate::gen::fr_to_iso(&first.tool_tf) }) } else { bare }
    };
    let mut kin_ip = rs_opw_kinematics::tool::Base { robot: inner, base: crate::gen::fr_to_iso(&first.base_tf) };
    let mut body_ip = first.body();
    if in_place {
        mon.count("history.in_place");
    }
    // a second posture close to the first (shares most link poses up to rounding of a cache key)
    let mut q2 = q;
    q2[rng.usize(6)] += rng.sign() * rng.logu(1e-9, 0.3);
    let qs = [q, q2];
    let n = cells.len();
    for step in 0..(2 * n + 2) {
        let r = if step < 2 * n { step % n } else { rng.usize(n) };
        let qq = qs[if step % 3 == 2 { 1 } else { 0 }];
        let cell = &cells[r];
        let m = cell.safety.mode;
        let oracle = cell.oracle(&qq, &cell.safety);
        mon.count("history.steps");
        let api = rng.usize(3);
        let detail = |extra: serde_json::Value| json!({"cells": cells.iter().map(|c| c.json()).collect::<Vec<_>>(), "cell_index": r, "step": step, "q": jf(&qq), "mode": mode_name(m), "edited_in_place": in_place, "extra": extra, "oracle": oracle_json(&oracle)});
        if in_place {
            kin_ip.base = crate::gen::fr_to_iso(&cell.base_tf);
            body_ip = cell.body();
        }
        match api {
            0 | 1 => {
                let rep = if in_place {
                    if api == 0 { body_ip.collision_details(&qq, &kin_ip) } else { body_ip.near(&qq, &kin_ip, &cell.safety.build()) }
                } else if api == 0 { robots[r].collision_details(&qq) } else { robots[r].near(&qq, &cell.safety.build()) };
                let j = judge_report(cell, &qq, &oracle, &rep, m, if api == 0 { "collision_details" } else { "near" });
                for (sig, what, ex) in &j.violations {
                    let sig = if sig.ends_with("(parry)") { sig.clone() } else { format!("history:{}", sig) };
                    mon.violation(&sig, what, detail(json!({"reported": rep, "finding": ex})));
                }
                if j.violations.is_empty() {
                    mon.held_n(oracle.pairs.len() as u64);
                }
            }
            _ => {
                let c = if in_place { body_ip.collides(&qq, &kin_ip) } else { robots[r].collides(&qq) };
                let nc = oracle.set(Verdict::Colliding).len();
                let expect_true = nc > 0 && m != CheckMode::NoCheck;
                let expect_false = m == CheckMode::NoCheck || (nc == 0 && !oracle.any_ambiguous());
                if expect_true && !c {
                    let cs = oracle.set(Verdict::Colliding);
                    let k = *cs.iter().find(|k| !miss_signature(cell, &qq, "collides", k.0, k.1, &oracle.pairs[*k]).ends_with("(parry)")).unwrap_or(cs.iter().next().unwrap());
                    let sig = miss_signature(cell, &qq, "collides", k.0, k.1, &oracle.pairs[&k]);
                    let sig = if sig.ends_with("(parry)") { sig } else { format!("history:{}", sig) };
                    mon.violation(&sig, "collides() is false although a relevant pair is closer than its safety distance", detail(json!({"pair": [k.0, k.1]})));
                } else if expect_false && c {
                    mon.violation(&format!("history:collides:false-collision:{}", mode_name(m)), "collides() is true although every relevant pair is free (or checking is off)", detail(json!({})));
                } else if expect_true || expect_false {
                    mon.held();
                } else {
                    mon.inconclusive("collides:only-ambiguous-pairs");
                }
            }
        }
    }
    mon.nontrivial(hash_combine(idx ^ 0x51ed, hash_f64s(&q)));
}

fn schedules(idx: u64, rng: &mut Rng, mon: &mut Mon) {
    let (cell, q) = gen_scenario(rng, idx, CheckMode::AllCollsions);
    let robot = cell.build();
    let oracle = cell.oracle(&q, &cell.safety);
    let events: Arc<Mutex<Vec<(usize, usize, f32, bool, u64)>>> = Arc::new(Mutex::new(vec![]));
    let rejects: Arc<Mutex<u64>> = Arc::new(Mutex::new(0));
    let mut baseline: Option<BTreeSet<(usize, usize)>> = None;
    let mut baseline_collides: Option<bool> = None;
    let relevant_non_exempt: BTreeMap<(usize, usize), usize> = {
        let mut m = BTreeMap::new();
        for (a, b) in cell.relevant_pairs() {
            if oracle.pairs[&key(a, b)].verdict != Verdict::Exempt {
                *m.entry(key(a, b)).or_insert(0) += 1;
            }
        }
        m
    };
    let delay_seed = rng.next_u64();
    for pool_size in [1usize, 2, 3, 4, 8, 16] {
        let pool = rayon::ThreadPoolBuilder::new().num_threads(pool_size).build().unwrap();
        for rep in 0..3 {
            let with_delay = rep > 0;
            events.lock().unwrap().clear();
            let ev = events.clone();
            let rj = rejects.clone();
            rs_opw_kinematics::verif_hooks::set_sink(Some(Box::new(move |name, data| {
                if name == "collision_task" {
                    let tid = {
                        use std::hash::{Hash, Hasher};
                        let mut h = std::collections::hash_map::DefaultHasher::new();
                        std::thread::current().id().hash(&mut h);
                        h.finish()
                    };
                    ev.lock().unwrap().push((data[0] as usize, data[1] as usize, data[2] as f32, data[3] != 0.0, tid));
                    if with_delay {
                        // delay between tasks (the only place an interleaving can differ), pseudo-random per pair
                        let us = crate::rng::mix(delay_seed ^ ((data[0] as u64) << 20) ^ (data[1] as u64) ^ (rep as u64)) % 150;
                        std::thread::sleep(std::time::Duration::from_micros(us));
                    }
                } else if name == "collision_prefilter_reject" {
                    *rj.lock().unwrap() += 1;
                }
            })));
            // the events of collision_details (all-collisions mode) are taken before collides() runs
            let details = pool.install(|| robot.collision_details(&q));
            let evs = events.lock().unwrap().clone();
            let coll = pool.install(|| robot.collides(&q));
            rs_opw_kinematics::verif_hooks::set_sink(None);
            let set: BTreeSet<(usize, usize)> = details.iter().map(|(a, b)| key(*a, *b)).collect();
            mon.count("schedules.runs");
            mon.count_n("hook.tasks_observed", evs.len() as u64);
            // completion order and thread assignment actually seen
            let order: String = evs.iter().take(40).map(|e| format!("{}-{}", e.0, e.1)).collect::<Vec<_>>().join(",");
            mon.seen("completion_orders", format!("{:x}", crate::rng::hash_str(&order)));
            let threads: BTreeSet<u64> = evs.iter().map(|e| e.4).collect();
            mon.seen("threads_per_query", format!("pool{}:{}threads", pool_size, threads.len()));
            let detail = |extra: serde_json::Value| json!({"cell": cell.json(), "q": jf(&q), "pool": pool_size, "repeat": rep, "delays": with_delay, "extra": extra});
            match &baseline {
                None => {
                    baseline = Some(set.clone());
                    baseline_collides = Some(coll);
                }
                Some(b) => {
                    if b != &set || baseline_collides != Some(coll) {
                        mon.violation("schedule-dependent-result", "collision report differs between thread pool sizes / schedules", detail(json!({"first": pairs_json(b), "now": pairs_json(&set), "collides_first": baseline_collides, "collides_now": coll})));
                    } else {
                        mon.held();
                    }
                }
            }
            // hook oracle: in all-collisions mode the first len(tasks) events belong to collision_details:
            // every relevant non-exempt pair evaluated exactly once there (exempt pairs may be skipped or evaluated-as-exempt)
            let mut seen: BTreeMap<(usize, usize), usize> = BTreeMap::new();
            for e in &evs {
                *seen.entry(key(e.0, e.1)).or_insert(0) += 1;
                if e.2 <= NEVER_COLLIDES {
                    mon.count("hook.path.exempt");
                } else if e.2 == 0.0 {
                    mon.count("hook.path.touch");
                } else {
                    mon.count("hook.path.distance");
                }
            }
            // exactly once each
            if let Some((k, n)) = seen.iter().find(|(_, n)| **n > 1) {
                mon.violation(&format!("hook:pair-evaluated-more-than-once:{}", category(k.0, k.1)), "a pair was evaluated more than once in one all-collisions query", detail(json!({"pair": [k.0, k.1], "times": n})));
            }
            let missing: Vec<_> = relevant_non_exempt.keys().filter(|k| !seen.contains_key(*k)).cloned().collect();
            let relevant_all: BTreeSet<(usize, usize)> = cell.relevant_pairs().into_iter().map(|(a, b)| key(a, b)).collect();
            let extra: Vec<_> = seen.keys().filter(|k| !relevant_all.contains(*k)).cloned().collect();
            if !missing.is_empty() {
                mon.violation(&format!("hook:pair-never-evaluated:{}", category(missing[0].0, missing[0].1)), "a relevant, non-exempt pair was never evaluated by the collision pipeline", detail(json!({"missing": missing})));
            } else if !extra.is_empty() {
                mon.violation(&format!("hook:irrelevant-pair-evaluated:{}", category(extra[0].0, extra[0].1)), "a pair outside the relevant list was evaluated", detail(json!({"extra": extra})));
            } else {
                mon.held();
            }
        }
    }
    mon.count_n("hook.path.prefilter_reject", *rejects.lock().unwrap());
    // the schedule runs must also agree with the oracle
    let j = judge_report(&cell, &q, &oracle, &baseline.clone().unwrap().into_iter().collect::<Vec<_>>(), CheckMode::AllCollsions, "collision_details");
    for (sig, what, ex) in &j.violations {
        mon.violation(sig, what, json!({"cell": cell.json(), "q": jf(&q), "finding": ex}));
    }
    mon.nontrivial(hash_combine(crate::props::robot_hash(&cell.robot), hash_f64s(&q)));
    if idx < 1 {
        mon.sample(json!({"kind": "schedules", "q": jf(&q), "pools": [1, 2, 3, 4, 8, 16], "repeats_per_pool": 3, "reported": pairs_json(&baseline.unwrap())}));
    }
}

/// `opwmon child c10debug <seed> <idx>`: prints, for every relevant pair of one generated scenario,
/// the oracle's distance next to parry's own intersection / distance queries (diagnosis aid).
pub fn debug(seed: u64, idx: u64) -> i32 {
    let mut rng = Rng::for_case(seed, "C10", "verdicts", idx);
    let mode = pick_mode(&mut rng);
    let (cell, q) = gen_scenario(&mut rng, idx, mode);
    let robot = cell.build();
    let oracle = cell.oracle(&q, &cell.safety);
    let poses = robot.kinematics.forward_with_joint_poses(&q).map(|p| p.cast::<f32>());
    println!("mode {:?} safety {}", mode, cell.safety.json());
    println!("reported {:?} collides {}", robot.collision_details(&q), robot.collides(&q));
    for ((a, b), info) in &oracle.pairs {
        let (v, d, r) = (&info.verdict, &info.dist, &info.r);
        let get = |id: usize| -> (parry3d::shape::TriMesh, nalgebra::Isometry3<f32>) {
            if id < 6 {
                (cell.links[id].to_trimesh(), poses[id])
            } else if id == J_TOOL {
                (cell.tool.as_ref().unwrap().to_trimesh(), poses[5])
            } else if id == J_BASE {
                (cell.base.as_ref().unwrap().to_trimesh(), fr_to_iso(&cell.base_tf).cast::<f32>())
            } else {
                let (m, f) = &cell.env[id - ENV_START_IDX];
                (m.to_trimesh(), fr_to_iso(f).cast::<f32>())
            }
        };
        let (ma, pa) = get(*a);
        let (mb, pb) = get(*b);
        let it = parry3d::query::intersection_test(&pa, &ma, &pb, &mb);
        let dist = parry3d::query::distance(&pa, &ma, &pb, &mb);
        let placed = cell.place_all(&q);
        let res = crate::mesh::mesh_mesh(&placed[a], &placed[b], 1.0);
        let inside_ab = placed[a].tris.iter().all(|t| placed[b].contains_point(t.a, 0.0) == Some(true));
        let inside_ba = placed[b].tris.iter().all(|t| placed[a].contains_point(t.a, 0.0) == Some(true));
        println!("{:?} {:?} oracle_d={:.6} r={} pierce={:.6} a_in_b={} b_in_a={} | parry intersects={:?} distance={:?}", (a, b), v, d, r, res.pierce, inside_ab, inside_ba, it, dist);
    }
    0
}

pub fn debug_parry() -> i32 {
    use crate::mesh::RMesh;
    use crate::refmodel::{Fr, I3};
    for n in [0usize, 2, 6] {
        for delta in [-1e-2f64, -1e-3, -3e-4, -1e-4, -1e-5, 1e-5, 1e-4, 3e-4, 1e-3] {
            let a = RMesh::boxm([0.032, 0.032, 0.016], [0.0, 0.0, -0.016], 5);
            let b = RMesh::boxm([0.017, 0.011, 0.0125], [0.0; 3], n);
            // b above a's top face (z = 0) with gap delta
            let fb = Fr::new(I3, [0.003, -0.002, delta + 0.0125]);
            let fa = Fr::id();
            let it = parry3d::query::intersection_test(&fr_to_iso(&fa).cast::<f32>(), &a.to_trimesh(), &fr_to_iso(&fb).cast::<f32>(), &b.to_trimesh());
            let d = parry3d::query::distance(&fr_to_iso(&fa).cast::<f32>(), &a.to_trimesh(), &fr_to_iso(&fb).cast::<f32>(), &b.to_trimesh());
            let res = crate::mesh::mesh_mesh(&a.placed(&fa), &b.placed(&fb), 1.0);
            println!("n={} gap={:+.5} parry intersects={:?} dist={:?} | oracle intersects={} dist={:.6} pierce={:.6}", n, delta, it, d, res.intersects, res.dist, res.pierce);
        }
    }
    0
}

pub fn debug_tri() -> i32 {
    use crate::mesh::RMesh;
    use crate::refmodel::{Fr, I3};
    use parry3d::shape::Triangle;
    let a = RMesh::boxm([0.032, 0.032, 0.016], [0.0, 0.0, -0.016], 5);
    let b = RMesh::boxm([0.017, 0.011, 0.0125], [0.0; 3], 2);
    let fb = Fr::new(I3, [0.003, -0.002, -0.01 + 0.0125]);
    let pa = a.placed(&Fr::id());
    let pb = b.placed(&fb);
    let mut shown = 0;
    for ta in &pa.tris {
        for tb in &pb.tris {
            let (d2, p) = crate::mesh::tri_tri(ta, tb);
            if d2 == 0.0 && shown < 6 {
                let f = |v: [f64; 3]| parry3d::math::Point::new(v[0] as f32, v[1] as f32, v[2] as f32);
                let t1 = Triangle::new(f(ta.a), f(ta.b), f(ta.c));
                let t2 = Triangle::new(f(tb.a), f(tb.b), f(tb.c));
                let id = nalgebra::Isometry3::<f32>::identity();
                let it = parry3d::query::intersection_test(&id, &t1, &id, &t2);
                let dd = parry3d::query::distance(&id, &t1, &id, &t2);
                println!("pierce={:.5} A={:?} B={:?} parry tri-tri intersects={:?} dist={:?}", p, (ta.a, ta.b, ta.c), (tb.a, tb.b, tb.c), it, dd);
                shown += 1;
            }
        }
    }
    let id = nalgebra::Isometry3::<f32>::identity();
    let mb = b.to_trimesh();
    println!("trimesh b: {} verts {} tris; aabb {:?}", mb.vertices().len(), mb.indices().len(), mb.local_aabb());
    println!("mesh-mesh {:?}", parry3d::query::intersection_test(&id, &a.to_trimesh(), &fr_to_iso(&fb).cast::<f32>(), &mb));
    println!("mesh-mesh swapped {:?}", parry3d::query::intersection_test(&fr_to_iso(&fb).cast::<f32>(), &mb, &id, &a.to_trimesh()));
    0
}

pub fn debug_scale() -> i32 {
    use parry3d::shape::Triangle;
    let id = nalgebra::Isometry3::<f32>::identity();
    for s in [0.001f32, 0.003, 0.01, 0.02, 0.03, 0.05, 0.1, 0.3, 1.0] {
        // horizontal right triangle of leg s at z=0, vertical right triangle of leg s in plane x = 0.3 s crossing it
        let mut rng = Rng::new(7);
        let mut miss = 0;
        let mut total = 0;
        let mut worst = 0.0f32;
        for _ in 0..2000 {
            let off = [rng.range(-1.0, 1.0) as f32, rng.range(-1.0, 1.0) as f32, rng.range(-1.0, 1.0) as f32];
            let p = |x: f32, y: f32, z: f32| parry3d::math::Point::new(x + off[0], y + off[1], z + off[2]);
            let t1 = Triangle::new(p(0.0, 0.0, 0.0), p(s, 0.0, 0.0), p(0.0, s, 0.0));
            let x = 0.3 * s;
            let y0 = 0.2 * s * rng.f() as f32;
            let depth = s * (0.1 + 0.8 * rng.f() as f32);
            let t2 = Triangle::new(p(x, y0, -depth), p(x, y0, s - depth), p(x, y0 + s, -depth));
            total += 1;
            if parry3d::query::intersection_test(&id, &t1, &id, &t2) != Ok(true) {
                miss += 1;
                if let Ok(d) = parry3d::query::distance(&id, &t1, &id, &t2) {
                    worst = worst.max(d);
                }
            }
        }
        println!("triangle size {:>6} m: parry missed {}/{} crossing pairs (largest reported distance {})", s, miss, total, worst);
    }
    0
}
