//! C11 — collision-aware IK returns exactly the non-colliding solutions, in order.

use crate::cell::*;
use crate::gen::*;
use crate::props::c10::gen_posture;
use crate::props::ik::*;
use crate::refmodel::*;
use crate::report::{hash_combine, hash_f64s, jf, Mon};
use crate::rng::Rng;
use crate::{Kind, Prop, Spec, Tier};
use rs_opw_kinematics::collisions::{CheckMode, CollisionBody};
use rs_opw_kinematics::kinematic_traits::{Kinematics, CONSTRAINT_CENTERED};
use rs_opw_kinematics::kinematics_impl::OPWKinematics;
use rs_opw_kinematics::kinematics_with_shape::KinematicsWithShape;
use rs_opw_kinematics::tool::{Base, Tool};
use serde_json::json;
use std::sync::Arc;

pub fn prop() -> Prop {
    Prop { id: "C11", spec, run_case, finalize: None }
}

fn spec() -> Spec {
    Spec {
        kinds: vec![Kind { name: "filtered_ik", quick: 8_000, thorough: 400_000, serial: false }],
        rule: "each case = synthetic cell (coarse box meshes, base and tool incl. rotation-only / translation-only / identity transforms, 1..3 obstacles placed on IK branches of the requested pose) built through KinematicsWithShape::new (both first_collision_only values) or ::with_safety (random safety table and mode) x pose x previous x the four inverse entry points; the answer must equal, element for element and bit for bit, the answer of an independently built Tool{Base{OPWKinematics::new_with_constraints}} stack with the elements for which the same robot's collides() is true removed; forward, link poses, constraints() and singularity reports must be the stack's; positioned_robot must carry mesh i at link pose i, the tool at pose 6 and the environment in order. non-trivial = 0 < #removed < #answers of the stack; distinct = hash(cell, pose, entry) Workload additions: the filter runs on pools of 1..5 workers or the global pool; half of the cells with limits narrower than a turn (odd answer counts); a tenth of the poses exactly on the reach limit, a tenth inside the wrist band (nine answers); NoCheck robots. Rounds 7-9: sorting weights 0 / 1 / random; on half of the cells (and all cells with a designed base) every stack answer is also judged by the brute-force oracle with meshes placed by the reference chain; the same robot asked the same pose again with other previous vectors.",
        assumptions: vec!["collides() of the same robot is taken as the definition of 'reported colliding' (its agreement with geometry is C10's subject)"],
        minimums: vec![("oracle_evals", 50_000, 3_000_000), ("calls_with_partial_removal", 1_500, 90_000), ("order_sensitive_cases", 300, 18_000), ("pool.2", 2_000, 100_000)],
    }
}

fn pools() -> &'static Vec<rayon::ThreadPool> {
    static POOLS: std::sync::OnceLock<Vec<rayon::ThreadPool>> = std::sync::OnceLock::new();
    POOLS.get_or_init(|| [1usize, 2, 3, 4, 5].iter().map(|n| rayon::ThreadPoolBuilder::new().num_threads(*n).build().unwrap()).collect())
}

fn tf_variant(rng: &mut Rng, f: Fr) -> (Fr, &'static str) {
    match rng.usize(6) {
        0 => (Fr { r: f.r, p: [0.0; 3] }, "rotation_only"),
        1 => (Fr { r: I3, p: f.p }, "translation_only"),
        2 => (Fr::id(), "identity"),
        _ => (f, "general"),
    }
}

fn run_case(_kind: &str, idx: u64, rng: &mut Rng, mon: &mut Mon, _tier: Tier) {
    let mut cell = Cell::generate(rng, idx, true, true, false);
    // half of the cells have limits narrower than a turn on every joint: single members of the J4/J6 flip
    // pairs drop out, so the stack answers with odd counts as well (3, 5, 7)
    // sorting weight of the limits: by previous (0), by constraint centres (1) or a mix
    let weight = *rng.pick(&[0.0, 0.0, 1.0, rng.clone().f()]);
    let _ = rng.next_u64();
    cell.constraints = rs_opw_kinematics::constraints::Constraints::new(cell.constraints.from, cell.constraints.to, weight);
    if rng.bool(0.5) {
        let from: [f64; 6] = std::array::from_fn(|_| -rng.range(1.8, 3.2));
        let to: [f64; 6] = std::array::from_fn(|_| rng.range(1.8, 3.2));
        cell.constraints = rs_opw_kinematics::constraints::Constraints::new(from, to, cell.constraints.sorting_weight);
        mon.count("cells_with_narrow_limits");
    }
    let tool_rot = if rng.bool(0.5) { cell.tool_tf.r } else { random_rotation(rng) };
    let (tt, tclass) = tf_variant(rng, Fr { r: tool_rot, p: cell.tool_tf.p });
    cell.tool_tf = tt;
    let (bt, bclass) = tf_variant(rng, cell.base_tf);
    cell.base_tf = bt;
    // pose from a posture; obstacles near links of some IK branches of that pose
    let mut t = gen_posture(rng);
    // a tenth of the poses lies exactly on the reach limit (arm fully stretched or folded), where the elbow-up
    // and elbow-down branches of the stack coincide to ~1e-8 rad and come back as neighbouring answers
    let stretched = rng.bool(0.1);
    if stretched {
        t[2] = -cell.robot.rp.psi3() + if rng.bool(0.7) { 0.0 } else { std::f64::consts::PI };
        mon.count("poses_on_the_reach_limit");
    }
    // another tenth has the model J5 inside the solver's 0.01 degree wrist band without being exactly singular:
    // the continuation solver then appends a ninth answer to the eight regular ones
    if !stretched && rng.bool(0.1) {
        t[4] = rng.sign() * rng.logu(1e-6, 1.5e-4);
        mon.count("poses_inside_the_wrist_band");
    }
    let q = cell.robot.rp.from_theta(&t);
    let stack: Arc<dyn Kinematics> = Arc::new(Tool {
        robot: Arc::new(Base { robot: Arc::new(OPWKinematics::new_with_constraints(to_params(&cell.robot.rp), cell.constraints)), base: fr_to_iso(&cell.base_tf) }),
        tool: fr_to_iso(&cell.tool_tf),
    });
    let pose = stack.forward(&q);
    let branches = stack.inverse(&pose);
    // a fifth of the cells has no environment at all: only self collisions (links, tool, base) filter
    let n_obs = if rng.bool(0.2) { 0 } else { 1 + rng.usize(3) };
    if n_obs == 0 {
        mon.count("cells_without_environment");
    }
    for _ in 0..n_obs {
        if branches.is_empty() || rng.bool(0.2) {
            cell.add_random_obstacle(rng);
        } else {
            let b = branches[rng.usize(branches.len())];
            let target = 1 + rng.usize(5);
            let d = rng.range(-0.03, 0.01);
            cell.add_designed_obstacle(rng, &b, target, d);
        }
    }
    // a sixth of the cells: the base mesh is a box at a designed gap from the tool or a link of one of the branches
    // (the tool-base and link-base pairs then decide which answers survive)
    let designed_base = !branches.is_empty() && rng.bool(0.17);
    if designed_base {
        let b = branches[rng.usize(branches.len())];
        let target = if rng.bool(0.6) { rs_opw_kinematics::kinematic_traits::J_TOOL } else { 1 + rng.usize(5) };
        let gap = rng.range(-0.04, 0.03);
        cell.design_base(rng, &b, target, gap);
        mon.count("cells_with_a_designed_base");
    }
    let cross_check_all = rng.bool(0.5);
    let ctor = rng.usize(3);
    let first_only = rng.bool(0.5);
    // (a robot whose checks are switched off reports nothing as colliding and therefore filters nothing)
    let mode = match rng.usize(10) { 0 => CheckMode::NoCheck, 1..=5 => CheckMode::FirstCollisionOnly, _ => CheckMode::AllCollsions };
    if ctor == 2 {
        cell.safety = cell.random_safety(rng, mode);
        // keep self-distances small enough that not every posture is "too close"
        if cell.safety.to_robot_default > 0.03 {
            cell.safety.to_robot_default = 0.01;
        }
    } else {
        cell.safety = SafetySpec::touch(if first_only { CheckMode::FirstCollisionOnly } else { CheckMode::AllCollsions });
    }
    let env = || cell.env.iter().map(|(m, f)| CollisionBody { mesh: m.to_trimesh(), pose: fr_to_iso(f).cast::<f32>() }).collect::<Vec<_>>();
    let meshes = || -> [parry3d::shape::TriMesh; 6] { std::array::from_fn(|i| cell.links[i].to_trimesh()) };
    let robot: KinematicsWithShape = if ctor == 2 {
        KinematicsWithShape::with_safety(to_params(&cell.robot.rp), cell.constraints, meshes(), cell.base.as_ref().unwrap().to_trimesh(), fr_to_iso(&cell.base_tf), cell.tool.as_ref().unwrap().to_trimesh(), fr_to_iso(&cell.tool_tf), env(), cell.safety.build())
    } else {
        KinematicsWithShape::new(to_params(&cell.robot.rp), cell.constraints, meshes(), cell.base.as_ref().unwrap().to_trimesh(), fr_to_iso(&cell.base_tf), cell.tool.as_ref().unwrap().to_trimesh(), fr_to_iso(&cell.tool_tf), env(), first_only)
    };
    let ctor_name = ["new", "new", "with_safety"][ctor];
    mon.count(&format!("constructor.{}", ctor_name));
    mon.count(&format!("tool_tf.{}", tclass));
    mon.count(&format!("base_tf.{}", bclass));
    let detail = |what: &str, extra: serde_json::Value| json!({"cell": cell.json(), "constructor": ctor_name, "first_collision_only": first_only, "tool_class": tclass, "base_class": bclass, "q": jf(&q), "clause": what, "extra": extra});
    // constructor `new`: touch-only distances and the corresponding mode
    if ctor != 2 {
        let s = &robot.body.safety;
        let want = if first_only { CheckMode::FirstCollisionOnly } else { CheckMode::AllCollsions };
        if s.to_environment != 0.0 || s.to_robot_default != 0.0 || !s.special_distances.is_empty() || s.mode != want {
            mon.violation("constructor-new:safety", "KinematicsWithShape::new did not produce touch-only distances with the requested mode", detail("new-safety", json!({"mode": format!("{:?}", s.mode)})));
        } else {
            mon.held();
        }
    }
    // forward / links / constraints / singularity are the stack's
    let q2 = joints_uniform(rng, 3.0);
    let same_pose = |a: &Iso, b: &Iso| a.translation.vector == b.translation.vector && a.rotation.coords == b.rotation.coords;
    if !same_pose(&robot.forward(&q2), &stack.forward(&q2)) {
        mon.violation(&format!("forward-differs-from-stack:tool={}:base={}", tclass, bclass), "forward() of the robot with shape differs from base -> robot(limits) -> tool", detail("forward", json!({"q": jf(&q2)})));
    } else {
        mon.held();
    }
    let (la, lb) = (robot.forward_with_joint_poses(&q2), stack.forward_with_joint_poses(&q2));
    if !(0..6).all(|i| same_pose(&la[i], &lb[i])) {
        mon.violation(&format!("links-differ-from-stack:tool={}:base={}", tclass, bclass), "link poses of the robot with shape differ from the stack's", detail("links", json!({"q": jf(&q2)})));
    } else {
        mon.held();
    }
    let cons_ok = match (robot.constraints(), stack.constraints()) {
        (Some(a), Some(b)) => a.from == b.from && a.to == b.to && a.sorting_weight == b.sorting_weight,
        _ => false,
    };
    if !cons_ok {
        mon.violation("constraints-differ-from-stack", "constraints() differs from the limits given to the constructor", detail("constraints", json!({})));
    } else {
        mon.held();
    }
    let mut qs = q2;
    qs[4] = if rng.bool(0.5) { (0.0 + cell.robot.rp.offsets[4]) * cell.robot.rp.signs[4] as f64 } else { qs[4] };
    if robot.kinematic_singularity(&qs).is_some() != stack.kinematic_singularity(&qs).is_some() {
        mon.violation("singularity-differs-from-stack", "singularity report differs from the stack's", detail("singularity", json!({"q": jf(&qs)})));
    } else {
        mon.held();
    }
    // positioned robot
    {
        let pr = robot.positioned_robot(&q2);
        let mut ok = pr.joints.len() == 6 && pr.environment.len() == robot.body.collision_environment.len();
        if ok {
            for i in 0..6 {
                let t32 = lb[i].cast::<f32>();
                ok &= std::ptr::eq(pr.joints[i].joint_body, &robot.body.joint_meshes[i]) && pr.joints[i].transform == t32;
            }
            match (&pr.tool, &robot.body.tool) {
                (Some(t), Some(m)) => ok &= std::ptr::eq(t.joint_body, m) && t.transform == lb[5].cast::<f32>(),
                _ => ok = false,
            }
            for (k, e) in pr.environment.iter().enumerate() {
                ok &= std::ptr::eq(*e, &robot.body.collision_environment[k]);
            }
        }
        if !ok {
            mon.violation("positioned-robot", "positioned_robot does not carry mesh i at link pose i / tool at pose 6 / environment in order", detail("positioned", json!({"q": jf(&q2)})));
        } else {
            mon.held();
        }
    }
    // filtered IK
    let j6 = rng.range(-3.0, 3.0);
    let prev = match rng.usize(3) {
        0 => CONSTRAINT_CENTERED,
        1 => q,
        _ => joints_uniform(rng, 3.0),
    };
    for e in ENTRIES {
        let under = match call(stack.as_ref(), e, &pose, &prev, j6) {
            Ok(s) => s,
            Err(_) => continue,
        };
        let flags: Vec<bool> = under.iter().map(|s| robot.collides(s)).collect();
        // "with the body meshes placed at the same link poses": where the brute-force oracle (meshes placed by the
        // reference chain) is unambiguous about an answer, the robot's verdict on it must agree
        if (designed_base || cross_check_all) && robot.body.safety.mode != CheckMode::NoCheck {
            for (s, reported) in under.iter().zip(flags.iter()) {
                let o = cell.oracle(s, &cell.safety);
                let colliding = o.set(Verdict::Colliding);
                let geometric = if !colliding.is_empty() { Some(true) } else if !o.any_ambiguous() { Some(false) } else { None };
                mon.count("answers_cross_checked_geometrically");
                if let Some(g) = geometric {
                    if g != *reported {
                        let pair = colliding.iter().next().cloned();
                        mon.violation(&format!("filtered-ik:verdict-disagrees-with-mesh-placement:{}", if g { "kept-although-meshes-collide" } else { "dropped-although-meshes-are-free" }), "the robot's verdict on an answer disagrees with the meshes placed at the link poses of the underlying stack", detail("placement", json!({"entry": e.name(), "answer": jf(s), "reported_colliding": reported, "geometric_pair": pair})));
                        break;
                    } else {
                        mon.held();
                    }
                }
            }
        }
        let expected: Vec<[f64; 6]> = under.iter().zip(flags.iter()).filter(|(_, c)| !**c).map(|(s, _)| *s).collect();
        // the filter may run on any pool: the global one (as many workers as cores) or a small one
        // (1..5 workers; answer counts of 2..9 then meet every divisibility relation with the pool size)
        let pool_pick = rng.usize(8);
        let got = if pool_pick < 5 { mon.count(&format!("pool.{}", pool_pick + 1)); pools()[pool_pick].install(|| call(&robot, e, &pose, &prev, j6)) } else { mon.count("pool.global"); call(&robot, e, &pose, &prev, j6) };
        let got = match got {
            Ok(s) => s,
            Err(m) => {
                mon.violation(&format!("panic:{}", e.name()), "entry point of the robot with shape panicked", detail("no-panic", json!({"panic": m})));
                continue;
            }
        };
        mon.count(&format!("stack_answer_count.{}", under.len()));
        let removed = flags.iter().filter(|c| **c).count();
        if removed > 0 && removed < under.len() {
            mon.count("calls_with_partial_removal");
            mon.nontrivial(hash_combine(hash_combine(crate::props::robot_hash(&cell.robot), hash_f64s(&q)), e as u64 + 1 + (idx << 3)));
            // a colliding element followed by at least two kept ones makes order-destroying filters visible
            if let Some(p) = flags.iter().position(|c| *c) {
                if flags[p + 1..].iter().filter(|c| !**c).count() >= 2 {
                    mon.count("order_sensitive_cases");
                }
            }
        }
        let same = got.len() == expected.len() && got.iter().zip(expected.iter()).all(|(a, b)| (0..6).all(|j| a[j].to_bits() == b[j].to_bits()));
        if !same {
            let same_set = got.len() == expected.len() && expected.iter().all(|x| got.iter().any(|g| g == x));
            let sig = if same_set { "order-changed" } else if got.iter().any(|g| robot.collides(g)) { "colliding-solution-returned" } else if got.len() < expected.len() { "free-solution-dropped" } else { "differs-from-stack" };
            mon.violation(&format!("filtered-ik:{}:{}", sig, e.name()), "answer is not the ordered non-colliding subset of the underlying stack's answer", detail("filtered", json!({"entry": e.name(), "prev": jf(&prev), "j6": j6, "collides_flags": flags, "stack": under.iter().map(|s| jf(s)).collect::<Vec<_>>(), "got": got.iter().map(|s| jf(s)).collect::<Vec<_>>()})));
        } else {
            mon.held_n(under.len().max(1) as u64);
        }
    }
    // history: the SAME robot object is asked for the SAME pose again with other previous vectors (a planner probing
    // one pose from several start postures); every answer list must again be the filtered list of the stack
    for round in 0..2 {
        let prev2 = if round == 0 { let mut p = q; for j in 0..6 { p[j] += rng.range(-3.0, 3.0); } p } else { joints_uniform(rng, 2.0 * std::f64::consts::PI) };
        for e in [Entry::Continuing, Entry::Inverse] {
            let under = match call(stack.as_ref(), e, &pose, &prev2, j6) { Ok(s) => s, Err(_) => continue };
            let expected: Vec<[f64; 6]> = under.iter().filter(|s| !robot.collides(s)).cloned().collect();
            let got = match call(&robot, e, &pose, &prev2, j6) { Ok(s) => s, Err(_) => continue };
            mon.count("history.repeated_pose_queries");
            let same = got.len() == expected.len() && got.iter().zip(expected.iter()).all(|(a, b)| (0..6).all(|j| a[j].to_bits() == b[j].to_bits()));
            if !same {
                let bad = got.iter().any(|g| robot.collides(g));
                mon.violation(&format!("filtered-ik:history:{}:{}", if bad { "colliding-solution-returned" } else { "differs-from-stack" }, e.name()), "asked again for the same pose with another previous vector, the robot does not return the filtered list of the stack", detail("filtered-history", json!({"entry": e.name(), "prev": jf(&prev2), "round": round, "stack": under.iter().map(|s| jf(s)).collect::<Vec<_>>(), "got": got.iter().map(|s| jf(s)).collect::<Vec<_>>()})));
                break;
            } else {
                mon.held();
            }
        }
    }
    if idx < 2 {
        mon.sample(json!({"constructor": ctor_name, "tool_class": tclass, "base_class": bclass, "q": jf(&q), "obstacles": cell.env.len()}));
    }
}
