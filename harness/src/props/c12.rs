//! C12 — a planned Cartesian stroke is collision-free, in limits, continuous and linear.

use crate::cell::*;
use crate::gen::*;
use crate::props::c10::gen_posture;
use crate::refmodel::*;
use crate::report::{guarded, hash_combine, hash_f64s, jf, Mon};
use crate::rng::Rng;
use crate::spy::{Event, Spy};
use crate::{Kind, Prop, Spec, Tier};
use rs_opw_kinematics::cartesian::{AnnotatedJoints, Cartesian, PathFlags, DEFAULT_TRANSITION_COSTS};
use rs_opw_kinematics::collisions::CheckMode;
use rs_opw_kinematics::constraints::Constraints;
use rs_opw_kinematics::kinematic_traits::{Kinematics, J_TOOL};
use rs_opw_kinematics::kinematics_with_shape::KinematicsWithShape;
use rs_opw_kinematics::rrt::RRTPlanner;
use serde_json::json;
use std::sync::{Arc, Mutex};

pub fn prop() -> Prop {
    Prop { id: "C12", spec, run_case, finalize: None }
}

fn spec() -> Spec {
    Spec {
        kinds: vec![
            Kind { name: "plans", quick: 220, thorough: 6_000, serial: true },
            Kind { name: "schedules", quick: 30, thorough: 600, serial: true },
        ],
        rule: "plans: synthetic cell (coarse meshes, tool and base, non-wrapping limits) x stroke generated from joint-space seeds (landing pose, 1..4 stroke poses, parking pose) x obstacle layout (none / grazing the swept tool / blocking the stroke) x start configuration (a landing solution itself / another free posture) x check steps 5 mm..5 cm, cost limits 1..10 degrees, recursion depths 0..8, both interpolation settings; every returned plan is a history checked offline: all waypoints free and within limits, first waypoint == start, flag grammar ONBOARDING* LAND (LIN_INTERP* TRACE)^n LIN_INTERP* PARK, landing / stroke / parking poses reproduced by the reference FK in order, interpolated waypoints on the straight segment (position) and geodesic (rotation) between their anchors with non-decreasing parameter, consecutive Cartesian waypoints within the cost limit, no LIN_INTERP waypoint unless requested; sections the hook reports as closed by RRT are only checked for collisions/limits. schedules: the same deterministic scenario (start = landing solution, no RRT gap closing) in rayon pools 1,2,4,16 x spy delays x repeats must succeed or fail identically. non-trivial = plan returned with >= 1 interpolated Cartesian waypoint (or, without interpolation, >= 2 stroke poses); distinct = hash(waypoints) Workload additions: configured transition coefficients (0.3..4 per joint) in half of the free-form scenarios; layout landing_grazing (obstacle inside the tool's safety distance at the landing pose only); off-origin obstacle meshes. Rounds 7-9: start classes almost-the-landing-solution and across-the-seam-with-an-unlimited-joint; sorting weights other than 0; bisection-forcing scenarios; interpolated waypoints may not carry a given-pose flag; given poses must be reproduced in order also after random gap closing.",
        assumptions: vec![
            "reference FK = base * chain * tool of the cell; pose tolerance 1e-5 m / 1e-5 rad; segment tolerance 2e-6 m; cost slack 1e-12",
            "'free of collisions' is the same robot's collides() (C10 covers its agreement with geometry)",
        ],
        minimums: vec![("oracle_evals", 2_000, 80_000), ("plans.ok", 50, 2_000), ("waypoints_checked", 1_500, 60_000), ("plans.ok_with_obstacle", 5, 150)],
    }
}

pub struct Scenario {
    pub cell: Cell,
    pub from: [f64; 6],
    pub land: Fr,
    pub steps: Vec<Fr>,
    pub park: Fr,
    pub seeds: Vec<[f64; 6]>,
    pub layout: &'static str,
    pub start_class: &'static str,
    pub check_step_m: f64,
    pub check_step_rad: f64,
    pub max_cost: f64,
    /// transition coefficients handed to the planner (default weights or a random set)
    pub coeffs: [f64; 6],
    pub depth: usize,
    pub include_interp: bool,
    /// stroke / parking poses handed to the planner with the negated quaternion (same rotation)
    pub negate: Vec<bool>,
}

pub fn ref_tcp(cell: &Cell, q: &[f64; 6]) -> Fr {
    cell.base_tf.mul(&fk(&cell.robot.rp, q)).mul(&cell.tool_tf)
}

pub fn gen_scenario(rng: &mut Rng, idx: u64, for_schedules: bool) -> Option<Scenario> {
    let mut cell = Cell::generate(rng, idx, true, true, false);
    // (free-form scenarios: a third of the robots ranks its IK answers by the constraint centres or a mix, not by
    // closeness to previous - the planner must not rely on the head of the list being the continuous branch)
    let weight = if !for_schedules && rng.usize(3) == 0 { *rng.pick(&[1.0, rng.clone().f()]) } else { 0.0 };
    let _ = rng.next_u64();
    cell.constraints = Constraints::new([-3.0; 6], [3.0; 6], weight);
    cell.safety = if rng.bool(0.5) { SafetySpec::touch(CheckMode::FirstCollisionOnly) } else { cell.random_safety(rng, CheckMode::FirstCollisionOnly) };
    if cell.safety.to_robot_default > 0.02 {
        cell.safety.to_robot_default = 0.005;
    }
    let probe = cell.build();
    // joint-space seeds of the stroke
    let mut q = None;
    for _ in 0..30 {
        let t = gen_posture(rng);
        let c = cell.robot.rp.from_theta(&t);
        let c: [f64; 6] = std::array::from_fn(|j| c[j].max(-2.5).min(2.5));
        // stay away from the wrist singularity: the stroke should be a regular Cartesian move
        let tt = cell.robot.rp.theta(&c);
        if !probe.collides(&c) && tt[4].sin().abs() > 0.3 {
            q = Some(c);
            break;
        }
    }
    let q_land = q?;
    let n_steps = 1 + rng.usize(4);
    let mut seeds = vec![q_land];
    let mut cur = q_land;
    for _ in 0..(n_steps + 1) {
        for j in 0..6 {
            cur[j] += rng.sign() * rng.range(0.02, 0.10);
        }
        seeds.push(cur);
    }
    if seeds.iter().any(|s| probe.collides(s) || s.iter().any(|x| x.abs() > 2.9)) {
        return None;
    }
    // one scenario in eight repeats a given pose exactly (park == last stroke pose, a stroke pose listed
    // twice, or the first stroke pose == landing pose): it must still appear with its own flag
    if rng.usize(8) == 0 {
        let k = match rng.usize(3) {
            0 => seeds.len() - 1,
            1 => 1,
            _ => 1 + rng.usize(seeds.len() - 1),
        };
        seeds[k] = seeds[k - 1];
    }
    let poses: Vec<Fr> = seeds.iter().map(|s| ref_tcp(&cell, s)).collect();
    // schedule scenarios: mostly an obstacle that blocks one IK branch mid-stroke while others stay free
    let layout = if for_schedules { *rng.pick(&["branch_blocking", "branch_blocking", "branch_blocking", "none"]) } else { *rng.pick(&["none", "grazing", "grazing", "blocking", "branch_blocking", "branch_blocking", "landing_grazing"]) };
    if layout == "landing_grazing" {
        // an obstacle a few millimetres inside the tool's safety distance AT the landing pose (every IK
        // branch of the landing pose has the tool there), with the rest of the stroke left free: nothing
        // but the landing configuration itself is illegal, so a plan must not come back
        let safety = cell.safety.lookup(J_TOOL, 1000).max(0.0) as f64;
        for _ in 0..6 {
            let gap = safety - rng.range(0.001, 0.004);
            cell.add_designed_obstacle(rng, &seeds[0], J_TOOL, gap);
            let r2 = cell.build();
            if seeds[1..].iter().any(|q| r2.collides(q)) || !r2.collides(&seeds[0]) {
                cell.env.pop();
            } else {
                break;
            }
        }
    } else if layout != "none" {
        let k = 1 + rng.usize(seeds.len() - 1);
        let gap = if layout == "grazing" { cell.safety.lookup(J_TOOL, 1000).max(0.0) as f64 + rng.range(0.004, 0.02) } else { -0.02 };
        // the tool occupies the same space in every IK branch; an obstacle at the elbow links blocks
        // only the branch the seeds were generated on, so another landing solution may still work
        // (several attempts: the obstacle must leave the landing posture itself free)
        for attempt in 0..6 {
            let target = if layout == "branch_blocking" { 1 + rng.usize(3) } else { J_TOOL };
            let kk = if layout == "branch_blocking" { seeds.len() - 1 - (attempt % 2) } else { k };
            cell.add_designed_obstacle(rng, &seeds[kk], target, gap);
            let r2 = cell.build();
            if r2.collides(&q_land) {
                cell.env.pop();
            } else {
                break;
            }
        }
    }
    let robot = cell.build();
    let start_class = if layout != "landing_grazing" && (for_schedules || rng.bool(0.5)) { "landing_solution" } else { "other_posture" };
    let from = if start_class == "landing_solution" {
        q_land
    } else {
        let mut f = None;
        for _ in 0..30 {
            let t = gen_posture(rng);
            let c = cell.robot.rp.from_theta(&t);
            let c: [f64; 6] = std::array::from_fn(|j| c[j].max(-2.8).min(2.8));
            if !robot.collides(&c) {
                f = Some(c);
                break;
            }
        }
        f?
    };
    // two more start classes (free-form scenarios only)
    let mut cell = cell;
    let (mut from, mut start_class) = (from, start_class);
    if !for_schedules && layout != "landing_grazing" {
        match rng.usize(10) {
            // jogged by hand to roughly the landing posture: a fraction of an RRT step away from it, not identical
            0 => {
                let mut f = q_land;
                for _ in 0..2 {
                    f[rng.usize(6)] += rng.sign() * rng.range(0.2f64, 0.9).to_radians();
                }
                if !cell.build().collides(&f) {
                    from = f;
                    start_class = "almost_the_landing_solution";
                }
            }
            // one joint unlimited (from == to), and the start across the +-pi seam from the landing posture in
            // another joint: the landing solution nearest to the start lies a turn away, beyond the forbidden zone
            1 => {
                let k = rng.usize(6);
                if let Some(j) = (0..6).find(|j| *j != k && q_land[*j].abs() > 2.0) {
                    let (mut lf, mut lt) = ([-3.0; 6], [3.0; 6]);
                    lf[k] = 0.0;
                    lt[k] = 0.0;
                    let mut f = q_land;
                    f[j] = -q_land[j].signum() * rng.range(2.75, 2.95);
                    let saved = cell.constraints;
                    cell.constraints = Constraints::new(lf, lt, saved.sorting_weight);
                    if !cell.build().collides(&f) {
                        from = f;
                        start_class = "across_the_seam_with_an_unlimited_joint";
                    } else {
                        cell.constraints = saved;
                    }
                }
            }
            _ => {}
        }
    }
    // (schedule scenarios: always sparse, so that every branch passes the continuity phase without
    // random gap closing and only the collision check separates good from bad strategies)
    let sparse = for_schedules || rng.usize(3) == 0;
    let bisecting = !sparse && rng.usize(5) == 0;
    Some(Scenario {
        cell,
        from,
        land: poses[0],
        steps: poses[1..poses.len() - 1].to_vec(),
        park: poses[poses.len() - 1],
        seeds,
        layout,
        start_class,
        // a third of the scenarios use check steps larger than the stroke segments (no interpolated
        // poses are generated at all) together with a generous cost limit, so the stroke poses
        // themselves are the only Cartesian waypoints
        // (a fifth of the dense scenarios forces bisection: coarse check steps against a tight cost limit and enough depth)
        check_step_m: if sparse { rng.range(0.3, 0.6) } else if bisecting { rng.range(0.03, 0.08) } else { rng.logu(0.005, 0.05) },
        check_step_rad: if sparse { rng.range(1.0, 2.0) } else if bisecting { rng.range(0.2, 0.5) } else { rng.logu(0.02, 0.2) },
        max_cost: if sparse { rng.range(25.0, 45.0f64).to_radians() } else if bisecting { rng.range(0.6, 2.0f64).to_radians() } else { rng.range(1.0, 10.0f64).to_radians() },
        depth: if bisecting { 5 + rng.usize(4) } else { rng.usize(9) },
        // every other free-form scenario configures its own weights (heavier or lighter than the defaults);
        // schedule scenarios keep the defaults (their expected outcome is derived for those)
        coeffs: if !for_schedules && rng.bool(0.5) { std::array::from_fn(|_| rng.logu(0.3, 4.0)) } else { DEFAULT_TRANSITION_COSTS },
        include_interp: rng.bool(0.6),
        // a quarter of the scenarios hands some poses over as -q instead of q
        negate: { let flip = rng.bool(0.25); (0..n_steps + 1).map(|_| flip && rng.bool(0.5)).collect() },
    })
}

fn scenario_json(s: &Scenario) -> serde_json::Value {
    let pj = |f: &Fr| json!({"r": f.r, "p": f.p});
    json!({"cell": s.cell.json(), "from": jf(&s.from), "land": pj(&s.land), "steps": s.steps.iter().map(pj).collect::<Vec<_>>(), "park": pj(&s.park),
           "seeds": s.seeds.iter().map(|q| jf(q)).collect::<Vec<_>>(), "layout": s.layout, "start_class": s.start_class,
           "check_step_m": s.check_step_m, "check_step_rad": s.check_step_rad, "max_transition_cost": s.max_cost, "transition_coefficients": jf(&s.coeffs), "linear_recursion_depth": s.depth, "include_linear_interpolation": s.include_interp, "poses_given_with_negated_quaternion": s.negate})
}

pub struct PlanRun {
    pub result: Result<Result<Vec<AnnotatedJoints>, String>, String>,
    pub rrt_closings: usize,
    pub strategies_started: usize,
    pub spy_log: Vec<Event>,
}

pub fn run_plan(s: &Scenario, pool: Option<&rayon::ThreadPool>, delay_seed: Option<u64>) -> (PlanRun, KinematicsWithShape) {
    let cb: Option<crate::spy::Callback> = delay_seed.map(|seed| {
        // per-thread delay pattern: whole strategies (each probed by one worker) are slowed down or
        // not, which permutes the order in which strategies finish
        let cb: crate::spy::Callback = Box::new(move |e: &Event| {
            let slow = crate::rng::mix(seed ^ e.thread) % 3 == 0;
            let us = if slow { 150 + crate::rng::mix(seed ^ e.seq) % 100 } else { crate::rng::mix(seed ^ e.seq.wrapping_mul(0x9E37)) % 20 };
            if us > 10 {
                std::thread::sleep(std::time::Duration::from_micros(us));
            }
        });
        cb
    });
    let spy = Arc::new(match cb {
        Some(cb) => Spy::with_callback(s.cell.kinematics(), cb),
        None => Spy::new(s.cell.kinematics()),
    });
    let k: Arc<dyn Kinematics> = spy.clone();
    let robot = KinematicsWithShape { kinematics: k, body: s.cell.body() };
    let events: Arc<Mutex<(usize, usize)>> = Arc::new(Mutex::new((0, 0)));
    let ev = events.clone();
    rs_opw_kinematics::verif_hooks::set_sink(Some(Box::new(move |name, _data| {
        let mut g = ev.lock().unwrap();
        if name == "cartesian_rrt_close" {
            g.0 += 1;
        } else if name == "cartesian_strategy_start" {
            g.1 += 1;
        }
    })));
    let result = {
        let planner = Cartesian {
            robot: &robot,
            check_step_m: s.check_step_m,
            check_step_rad: s.check_step_rad,
            max_transition_cost: s.max_cost,
            transition_coefficients: s.coeffs,
            linear_recursion_depth: s.depth,
            rrt: RRTPlanner { step_size_joint_space: 3.0f64.to_radians(), max_try: if s.check_step_m >= 0.3 { 4000 } else { 600 }, debug: false },
            include_linear_interpolation: s.include_interp,
            debug: false,
        };
        let neg = |f: &Fr, n: bool| {
            let i = fr_to_iso(f);
            if n { Iso::from_parts(i.translation, nalgebra::Unit::new_unchecked(-i.rotation.into_inner())) } else { i }
        };
        let steps: Vec<_> = s.steps.iter().enumerate().map(|(k, f)| neg(f, s.negate.get(k).copied().unwrap_or(false))).collect();
        let park = neg(&s.park, s.negate.last().copied().unwrap_or(false));
        let call = || guarded(|| planner.plan(&s.from, &fr_to_iso(&s.land), steps.clone(), &park));
        match pool {
            Some(p) => p.install(call),
            None => call(),
        }
    };
    rs_opw_kinematics::verif_hooks::set_sink(None);
    let g = events.lock().unwrap();
    (PlanRun { result, rrt_closings: g.0, strategies_started: g.1, spy_log: spy.take() }, robot)
}

fn run_case(kind: &str, idx: u64, rng: &mut Rng, mon: &mut Mon, _tier: Tier) {
    let s = match gen_scenario(rng, idx, kind == "schedules") {
        Some(s) => s,
        None => {
            mon.inconclusive("no-feasible-scenario");
            return;
        }
    };
    if kind == "plans" {
        plans(idx, mon, &s)
    } else {
        schedules(idx, rng, mon, &s)
    }
}

fn flag_names(f: PathFlags) -> String {
    let mut v = vec![];
    for (fl, n) in [(PathFlags::ONBOARDING, "ONBOARDING"), (PathFlags::LAND, "LAND"), (PathFlags::TRACE, "TRACE"), (PathFlags::LIN_INTERP, "LIN_INTERP"), (PathFlags::PARK, "PARK")] {
        if f.contains(fl) {
            v.push(n);
        }
    }
    v.join("|")
}

/// offline checker of one returned plan
pub fn check_plan(mon: &mut Mon, s: &Scenario, robot: &KinematicsWithShape, path: &Vec<AnnotatedJoints>, rrt_closings: usize) -> bool {
    let detail = |what: &str, extra: serde_json::Value| {
        json!({"scenario": scenario_json(s), "clause": what, "rrt_gap_closings": rrt_closings,
               "path": path.iter().map(|w| json!({"flags": flag_names(w.flags), "joints": jf(&w.joints)})).collect::<Vec<_>>(), "extra": extra})
    };
    let mut ok = true;
    let cons = s.cell.constraints;
    // 1. free and within limits
    for (k, w) in path.iter().enumerate() {
        mon.count("waypoints_checked");
        if robot.collides(&w.joints) {
            ok = false;
            mon.violation(&format!("waypoint-collides:{}:{}", flag_names(w.flags), s.layout), "a waypoint of a successful plan is reported colliding", detail("collision-free", json!({"index": k})));
            break;
        }
        // "at the configured safety distances": every eighth waypoint (and the first and last) is also judged by the
        // brute-force oracle with the meshes placed by the reference chain and the table read in either key order
        if k % 8 == 0 || k + 1 == path.len() {
            let o = s.cell.oracle(&w.joints, &s.cell.safety);
            mon.count("waypoints_cross_checked_geometrically");
            if let Some(pair) = o.set(Verdict::Colliding).iter().next() {
                ok = false;
                mon.violation(&format!("waypoint-violates-a-configured-distance:{}", crate::props::c10::category(pair.0, pair.1)), "a waypoint of a successful plan violates a configured safety distance (brute-force oracle), although the robot reports it free", detail("collision-free-geometric", json!({"index": k, "pair": [pair.0, pair.1], "required": s.cell.safety.lookup(pair.0, pair.1)})));
                break;
            }
        }
        if !cons.compliant(&w.joints) {
            ok = false;
            mon.violation("waypoint-out-of-limits", "a waypoint of a successful plan is outside the joint limits", detail("limits", json!({"index": k})));
            break;
        }
    }
    // 2. begins with the given start configuration
    match path.first() {
        Some(w) if (0..6).all(|j| w.joints[j].to_bits() == s.from[j].to_bits()) => {}
        _ => {
            ok = false;
            mon.violation(&format!("path-does-not-start-at-from:{}", s.start_class), "the plan does not begin with the given start configuration", detail("start", json!({})));
        }
    }
    // 5. interpolated waypoints only when requested
    if !s.include_interp && path.iter().any(|w| w.flags.contains(PathFlags::LIN_INTERP)) {
        ok = false;
        mon.violation("interpolated-waypoints-not-requested", "LIN_INTERP waypoints are present although include_linear_interpolation is false", detail("interpolation-setting", json!({})));
    }
    if rrt_closings > 0 {
        mon.count("plans.with_rrt_gap_closing");
        // (the interpolation clauses do not apply across a random relocation, but the given poses still do: the
        // LAND, TRACE.. and PARK waypoints must reproduce the landing, stroke and parking poses in their order)
        let anchors: Vec<Fr> = std::iter::once(s.land).chain(s.steps.iter().cloned()).chain(std::iter::once(s.park)).collect();
        // (the relocation nodes of a closed gap carry the flag of the pose they lead to, so a flagged waypoint need not be
        // a given pose; what must hold is that every given pose is reproduced by SOME waypoint carrying its flag, in order)
        let mut from_k = 0usize;
        for (ai, a) in anchors.iter().enumerate() {
            let want_flag = if ai == 0 { PathFlags::LAND } else if ai + 1 == anchors.len() { PathFlags::PARK } else { PathFlags::TRACE };
            let hit = (from_k..path.len()).find(|k| {
                let w = &path[*k];
                w.flags.contains(want_flag) && !w.flags.contains(PathFlags::LIN_INTERP) && {
                    let g = ref_tcp(&s.cell, &w.joints);
                    pos_dist(&g, a) <= 1e-5 && rot_angle(&g.r, &a.r) <= 1e-5
                }
            });
            match hit {
                Some(k) => from_k = k + 1,
                None => {
                    ok = false;
                    mon.violation("poses:given-pose-missing-after-gap-closing", "a plan with random gap closing has no waypoint that carries the flag of a given pose and reproduces it (in the order of the poses)", detail("poses-rrt", json!({"pose_index": ai, "searched_from": from_k})));
                    break;
                }
            }
        }
        return ok;
    }
    // grammar + poses in order
    let anchors: Vec<Fr> = std::iter::once(s.land).chain(s.steps.iter().cloned()).chain(std::iter::once(s.park)).collect();
    let mut i = 0;
    while i < path.len() && path[i].flags.contains(PathFlags::ONBOARDING) && !path[i].flags.contains(PathFlags::LAND) {
        i += 1;
    }
    if i >= path.len() || !path[i].flags.contains(PathFlags::LAND) {
        mon.violation("grammar:no-land-after-onboarding", "flag grammar: ONBOARDING* must be followed by the LAND waypoint", detail("grammar", json!({"index": i})));
        return false;
    }
    let pose_ok = |q: &[f64; 6], a: &Fr| {
        let g = ref_tcp(&s.cell, q);
        (pos_dist(&g, a), rot_angle(&g.r, &a.r))
    };
    let (dp, dr) = pose_ok(&path[i].joints, &anchors[0]);
    if !(dp <= 1e-5 && dr <= 1e-5) {
        ok = false;
        mon.violation("pose:land-not-reproduced", "the LAND waypoint does not reproduce the landing pose", detail("poses", json!({"dp": dp, "dr": dr})));
    }
    let mut anchor = 0usize; // index of the last anchor reached
    let mut last_anchor_joints_idx = i;
    let mut last_param = 0.0f64;
    let mut k = i + 1;
    let mut interp_seen = 0;
    while k < path.len() {
        let w = &path[k];
        let is_interp = w.flags.contains(PathFlags::LIN_INTERP);
        // an interpolated waypoint is not one of the given poses: it carries none of their flags
        if is_interp && (w.flags.contains(PathFlags::TRACE) || w.flags.contains(PathFlags::PARK) || w.flags.contains(PathFlags::LAND)) {
            ok = false;
            mon.violation("grammar:interpolated-waypoint-flagged-as-given-pose", "a LIN_INTERP waypoint also carries the flag of a given pose (LAND / TRACE / PARK)", detail("grammar", json!({"index": k, "flags": flag_names(w.flags)})));
            break;
        }
        let is_anchor = !is_interp && (w.flags.contains(PathFlags::TRACE) || w.flags.contains(PathFlags::PARK));
        if anchor + 1 >= anchors.len() {
            ok = false;
            mon.violation("grammar:waypoints-after-park", "waypoints follow the PARK waypoint", detail("grammar", json!({"index": k})));
            break;
        }
        let (a, b) = (&anchors[anchor], &anchors[anchor + 1]);
        let g = ref_tcp(&s.cell, &w.joints);
        if is_interp {
            interp_seen += 1;
            // 3. on the straight segment, non-decreasing parameter, rotation on the geodesic
            let ab = sub(b.p, a.p);
            let l2 = dot(ab, ab);
            let t = if l2 > 0.0 { (dot(sub(g.p, a.p), ab) / l2).max(0.0).min(1.0) } else { 0.0 };
            let closest = add(a.p, scale(ab, t));
            let off = norm(sub(g.p, closest));
            let geo = rot_angle(&a.r, &g.r) + rot_angle(&g.r, &b.r) - rot_angle(&a.r, &b.r);
            mon.max("segment_offset", off);
            if !(off <= 2e-6) {
                ok = false;
                mon.violation("linearity:waypoint-off-the-segment", "an interpolated waypoint is not on the straight segment between the poses it interpolates", detail("linear", json!({"index": k, "offset": off, "anchor": anchor})));
                break;
            }
            if !(geo <= 1e-5) {
                ok = false;
                mon.violation("linearity:rotation-off-the-geodesic", "an interpolated waypoint's rotation is not between the rotations it interpolates", detail("linear", json!({"index": k, "excess_angle": geo, "anchor": anchor})));
                break;
            }
            if t + 1e-9 < last_param {
                ok = false;
                mon.violation("linearity:parameter-goes-backwards", "interpolated waypoints do not advance monotonically along the segment", detail("linear", json!({"index": k, "t": t, "previous_t": last_param})));
                break;
            }
            last_param = t;
        } else if is_anchor {
            let (dp, dr) = (pos_dist(&g, b), rot_angle(&g.r, &b.r));
            let want_park = anchor + 1 == anchors.len() - 1;
            if want_park != w.flags.contains(PathFlags::PARK) || (!want_park && !w.flags.contains(PathFlags::TRACE)) {
                ok = false;
                mon.violation("grammar:wrong-anchor-flag", "TRACE / PARK flags do not follow the order of the given poses", detail("grammar", json!({"index": k, "flags": flag_names(w.flags), "expected_park": want_park})));
                break;
            }
            if !(dp <= 1e-5 && dr <= 1e-5) {
                ok = false;
                mon.violation(&format!("pose:{}-not-reproduced", if want_park { "park" } else { "stroke" }), "a TRACE / PARK waypoint does not reproduce the corresponding given pose", detail("poses", json!({"index": k, "anchor": anchor + 1, "dp": dp, "dr": dr})));
                break;
            }
            anchor += 1;
            last_param = 0.0;
            last_anchor_joints_idx = k;
        } else {
            ok = false;
            mon.violation("grammar:unexpected-flags", "a waypoint after LAND is neither interpolated nor TRACE/PARK", detail("grammar", json!({"index": k, "flags": flag_names(w.flags)})));
            break;
        }
        // 4. transition cost between consecutive Cartesian waypoints (only meaningful with interpolation included)
        if s.include_interp {
            let p = &path[k - 1].joints;
            let c: f64 = (0..6).map(|j| (w.joints[j] - p[j]).abs() * s.coeffs[j]).sum();
            if s.coeffs != DEFAULT_TRANSITION_COSTS {
                mon.count("transitions_checked_with_configured_weights");
            }
            mon.max("transition_cost_over_limit", c / s.max_cost);
            if !(c <= s.max_cost + 1e-12) {
                ok = false;
                mon.violation("transition-cost-exceeded", "consecutive Cartesian waypoints differ by more than the configured transition cost", detail("cost", json!({"index": k, "cost": c, "limit": s.max_cost})));
                break;
            }
        }
        k += 1;
    }
    let _ = last_anchor_joints_idx;
    if ok && anchor != anchors.len() - 1 {
        ok = false;
        mon.violation("grammar:park-not-reached", "the plan ends before the PARK waypoint", detail("grammar", json!({"anchors_reached": anchor, "anchors": anchors.len()})));
    }
    if ok {
        mon.count_n("interpolated_waypoints_checked", interp_seen as u64);
    }
    ok
}

/// Trace specification over the spy log: every pose the planner asked the IK for (the given poses, the
/// densified ones and the bisection midposes) must lie on the straight segment between two consecutive
/// given poses, with its rotation on the geodesic between theirs. This holds whether or not planning
/// succeeds, so it also sees densification faults that only make planning fail.
fn check_requested_poses(mon: &mut Mon, s: &Scenario, log: &Vec<Event>) {
    let anchors: Vec<Fr> = std::iter::once(s.land).chain(s.steps.iter().cloned()).chain(std::iter::once(s.park)).collect();
    let mut worst = (0.0f64, 0.0f64);
    for e in log {
        let p = match (&e.pose, e.method) {
            (Some(p), crate::spy::Method::Continuing) | (Some(p), crate::spy::Method::Inverse) => iso_to_fr(p),
            _ => continue,
        };
        mon.count("requested_poses_checked");
        let mut best = (f64::INFINITY, f64::INFINITY);
        for w in anchors.windows(2) {
            let (a, b) = (&w[0], &w[1]);
            let ab = sub(b.p, a.p);
            let l2 = dot(ab, ab);
            let t = if l2 > 0.0 { (dot(sub(p.p, a.p), ab) / l2).max(0.0).min(1.0) } else { 0.0 };
            let off = norm(sub(p.p, add(a.p, scale(ab, t))));
            let geo = rot_angle(&a.r, &p.r) + rot_angle(&p.r, &b.r) - rot_angle(&a.r, &b.r);
            if off <= 2e-6 && geo < best.1 {
                best = (off, geo);
            } else if best.0.is_infinite() && off < best.0 {
                best.0 = off;
            }
        }
        if !(best.0 <= 2e-6 && best.1 <= 1e-5) {
            mon.violation(
                if best.0 <= 2e-6 { "requested-pose:rotation-off-the-geodesic" } else { "requested-pose:off-the-segments" },
                "the planner asked the IK for a pose that does not lie between two consecutive given poses",
                json!({"scenario": scenario_json(s), "pose": {"r": p.r, "p": p.p}, "best_segment_offset": best.0, "excess_rotation": if best.1.is_finite() { json!(best.1) } else { json!(null) }}),
            );
            return;
        }
        worst = (worst.0.max(best.0), worst.1.max(best.1));
    }
    mon.max("requested_pose_segment_offset", worst.0);
    mon.max("requested_pose_excess_rotation", worst.1);
    mon.held();
}

fn plans(idx: u64, mon: &mut Mon, s: &Scenario) {
    let (run, robot) = run_plan(s, None, None);
    check_requested_poses(mon, s, &run.spy_log);
    mon.count(&format!("layout.{}", s.layout));
    mon.count(&format!("start.{}", s.start_class));
    mon.count("plans.run");
    match &run.result {
        Err(msg) => mon.violation("plan:panic", "Cartesian::plan panicked", json!({"scenario": scenario_json(s), "panic": msg})),
        Ok(Err(e)) => {
            mon.count(&format!("plans.err.{}", e.split(' ').take(3).collect::<Vec<_>>().join("_")));
            mon.held();
        }
        Ok(Ok(path)) => {
            mon.count("plans.ok");
            if s.layout != "none" && !s.cell.env.is_empty() {
                mon.count("plans.ok_with_obstacle");
            }
            mon.seen("plan_lengths", format!("{}", path.len()));
            if check_plan(mon, s, &robot, path, run.rrt_closings) {
                mon.held_n(path.len() as u64);
                let interp = path.iter().filter(|w| w.flags.contains(PathFlags::LIN_INTERP)).count();
                if interp >= 1 || (!s.include_interp && s.steps.len() >= 2) {
                    mon.nontrivial(hash_combine(idx, hash_f64s(&path.iter().flat_map(|w| w.joints).collect::<Vec<_>>())));
                }
            }
        }
    }
    if idx < 2 {
        mon.sample(json!({"kind": "plans", "layout": s.layout, "start_class": s.start_class, "steps": s.steps.len(), "include_interp": s.include_interp,
            "outcome": match &run.result { Ok(Ok(p)) => format!("Ok({} waypoints)", p.len()), Ok(Err(e)) => format!("Err({})", e), Err(e) => format!("panic({})", e) }}));
    }
}

fn schedules(idx: u64, rng: &mut Rng, mon: &mut Mon, s: &Scenario) {
    // deterministic scenario: start = landing solution, sparse check steps (no gap closing), large RRT budget
    if s.start_class != "landing_solution" {
        mon.inconclusive("schedules:start-is-not-a-landing-solution");
        return;
    }
    let clone_with_from = |from: [f64; 6]| Scenario { cell: s.cell.clone(), from, land: s.land, steps: s.steps.clone(), park: s.park, seeds: s.seeds.clone(), layout: s.layout, start_class: s.start_class,
        check_step_m: s.check_step_m, check_step_rad: s.check_step_rad, max_cost: s.max_cost, coeffs: s.coeffs, depth: s.depth, include_interp: s.include_interp, negate: s.negate.clone() };
    let pool1 = rayon::ThreadPoolBuilder::new().num_threads(1).build().unwrap();
    // 1. classify the landing solutions. Started AT solution S_i on a one-thread pool, S_i is probed
    //    first and its onboarding is trivial, so "Ok with LAND == S_i" means: the Cartesian part of
    //    strategy S_i is continuous and collision free (a deterministic fact about the scenario).
    let robot = s.cell.build();
    let strategies = Kinematics::inverse_continuing(&robot, &fr_to_iso(&s.land), &s.from);
    if strategies.is_empty() {
        mon.inconclusive("schedules:no-landing-solution");
        return;
    }
    let same = |a: &[f64; 6], b: &[f64; 6]| (0..6).all(|j| (a[j] - b[j]).abs() < 1e-9);
    let mut good: Vec<bool> = vec![];
    for st in strategies.iter().take(8) {
        let s2 = clone_with_from(*st);
        let (run, robot2) = run_plan(&s2, Some(&pool1), None);
        mon.count("schedules.classification_runs");
        if run.rrt_closings > 0 {
            mon.inconclusive("schedules:random-gap-closing-involved");
            return;
        }
        let g = match &run.result {
            Ok(Ok(path)) => {
                check_plan(mon, &s2, &robot2, path, run.rrt_closings);
                path.iter().find(|w| w.flags.contains(PathFlags::LAND)).map(|w| same(&w.joints, st)).unwrap_or(false)
            }
            _ => false,
        };
        good.push(g);
    }
    // 2. expectation for the scenario as given (start = S_0, the landing solution closest to itself)
    mon.count(if good[0] { "schedules.class.closest_solution_good" } else if !good.iter().any(|g| *g) { "schedules.class.no_solution_good" } else { "schedules.class.closest_bad_other_good" });
    let expected: bool = if good[0] {
        true
    } else if !good.iter().any(|g| *g) {
        false
    } else {
        // S_0 is bad, another solution G is good: success needs the random relocation S_0 -> G. It is
        // taken as certain (with the 4000-try budget of the real runs) only if it succeeds five times
        // in a row with a 200-try budget (if a 200-try attempt succeeds with probability s, all five
        // succeed with s^5 and a 4000-try attempt fails with about (1-s)^20: jointly below 1e-4).
        let planner = RRTPlanner { step_size_joint_space: 3.0f64.to_radians(), max_try: 200, debug: false };
        let stop = std::sync::atomic::AtomicBool::new(false);
        let all_ok = (0..good.len()).filter(|i| good[*i]).any(|gi| (0..5).all(|_| planner.plan_rrt(&s.from, &strategies[gi], &robot, &stop).is_ok()));
        if !all_ok {
            mon.inconclusive("schedules:relocation-to-the-good-solution-is-not-certain");
            return;
        }
        mon.count("schedules.closest_solution_bad_other_good");
        true
    };
    // 3. the scenario itself under pools x repeats x per-thread delays
    let mut outcomes: Vec<(usize, bool)> = vec![];
    for pool_size in [1usize, 2, 4, 16] {
        let pool = rayon::ThreadPoolBuilder::new().num_threads(pool_size).build().unwrap();
        for rep in 0..3 {
            let (run, robot2) = run_plan(s, Some(&pool), if rep == 0 { None } else { Some(rng.next_u64()) });
            mon.count("schedules.runs");
            if run.rrt_closings > 0 {
                mon.inconclusive("schedules:random-gap-closing-involved");
                return;
            }
            let ok = matches!(run.result, Ok(Ok(_)));
            if let Ok(Ok(path)) = &run.result {
                let land = path.iter().find(|w| w.flags.contains(PathFlags::LAND)).map(|w| format!("{:x}", hash_f64s(&w.joints) & 0xffff)).unwrap_or_default();
                mon.seen("winning_strategies", format!("case{}:{}", idx, land));
                check_plan(mon, s, &robot2, path, run.rrt_closings);
            }
            mon.seen("strategies_started_per_run", format!("pool{}:{}", pool_size, run.strategies_started));
            outcomes.push((pool_size, ok));
        }
    }
    if outcomes.iter().any(|o| o.1 != expected) {
        mon.violation(
            &format!("schedule-dependent-success:expected-{}", if expected { "ok" } else { "err" }),
            "planning outcome differs from what the landing solutions determine (some thread pool size / schedule fails although a continuous collision-free strategy is reachable, or succeeds although none exists)",
            json!({"scenario": scenario_json(s), "strategy_is_good": good, "expected_ok": expected, "outcomes": outcomes.iter().map(|o| json!([o.0, o.1])).collect::<Vec<_>>()}),
        );
    } else {
        mon.held_n(outcomes.len() as u64);
        mon.nontrivial(hash_combine(idx, expected as u64 + 17));
        mon.count(if expected { "schedules.consistently_ok" } else { "schedules.consistently_err" });
    }
    if idx < 1 {
        mon.sample(json!({"kind": "schedules", "pools": [1, 2, 4, 16], "repeats": 3, "strategy_is_good": good, "expected_ok": expected}));
    }
}
