//! C13 — a returned RRT path joins start to goal through collision-free configurations.

use crate::cell::*;
use crate::props::c10::gen_posture;
use crate::report::{guarded, hash_combine, hash_f64s, jf, Mon};
use crate::rng::Rng;
use crate::spy::{Event, Method, Spy};
use crate::{Kind, Prop, Spec, Tier};
use rs_opw_kinematics::collisions::CheckMode;
use rs_opw_kinematics::constraints::Constraints;
use rs_opw_kinematics::kinematic_traits::{Kinematics, J_TOOL};
use rs_opw_kinematics::kinematics_with_shape::KinematicsWithShape;
use rs_opw_kinematics::rrt::RRTPlanner;
use serde_json::json;
use std::sync::atomic::{AtomicBool, AtomicU64, Ordering};
use std::sync::Arc;

pub fn prop() -> Prop {
    Prop { id: "C13", spec, run_case, finalize: None }
}

fn spec() -> Spec {
    Spec {
        kinds: vec![
            Kind { name: "paths", quick: 1_000, thorough: 25_000, serial: false },
            Kind { name: "cancel", quick: 150, thorough: 6_000, serial: false },
            // (thorough tier only: one straight relocation of more than 70 000 planner steps - a tree with more vertices
            // than fit into 16 bits; about half a minute per planning)
            Kind { name: "long_connect", quick: 0, thorough: 3, serial: false },
        ],
        rule: "paths: synthetic cell (coarse meshes, non-wrapping limits) x collision-free start/goal pairs in the layouts free space / obstacle placed on the straight joint-space line between them / goal within one step of the start / tiny try budget, step sizes 2..12 degrees; every scenario is planned repeatedly (thread_rng cannot be seeded) and each returned path is checked offline: exact endpoints, every node reported free, hops <= 3 steps, nodes within limits, and provenance: every interior node must appear in the spy log as a collision query made by the planner. cancel: flag raised before the call => Err for each of three calls sharing the flag; after an interrupted call a second call sharing the still raised flag => Err; flag raised by the spy at the k-th collision query (k swept) => no sampling event (constraints() call) may follow the raise and the result is Err unless the iteration in progress completed the connection. non-trivial = path with >= 3 nodes (paths) / cancellation that actually interrupted planning (cancel); distinct = hash(path) Workload additions: one raised flag shared by consecutive calls; goals one ulp / 1e-12 rad / a degree round trip from the start; layouts tiny_cell (box hugging a straight start-goal segment of 3..3.6 steps, 250 plannings per scene), no_environment (only the robot's own base in the way), narrow_limits planned 12 times per scene. Rounds 7-9: start / goal 1e-12..9e-11 rad beyond a limit; an unlimited joint next to goal_turn_away; asymmetric ranges reaching beyond +pi with a literal [from,to] node check; steps of 1.2..6 rad and of 1e-6..5e-5 rad; kind long_connect (thorough only: > 70 000 steps in one connect).",
        assumptions: vec![
            "the planner polls the flag once per iteration: 'no sampling after the raise' is the strongest form that is not racy against its own check point",
            "'reported free' is the same robot's collides()",
        ],
        minimums: vec![("oracle_evals", 5_000, 200_000), ("paths.returned", 1_000, 30_000), ("paths.nodes_checked", 15_000, 500_000), ("cancel.interrupted", 100, 4_000)],
    }
}

struct Scene {
    cell: Cell,
    start: [f64; 6],
    goal: [f64; 6],
    layout: &'static str,
    step: f64,
    max_try: usize,
}

fn free_posture(rng: &mut Rng, cell: &Cell, robot: &KinematicsWithShape) -> Option<[f64; 6]> {
    for _ in 0..30 {
        let t = gen_posture(rng);
        let q = cell.robot.rp.from_theta(&t);
        let q: [f64; 6] = std::array::from_fn(|j| q[j].max(-2.8).min(2.8));
        if !robot.collides(&q) {
            return Some(q);
        }
    }
    None
}

fn gen_scene(rng: &mut Rng, idx: u64) -> Option<Scene> {
    let mut cell = Cell::generate(rng, idx, rng.clone().bool(0.7), rng.clone().bool(0.6), false);
    let _ = rng.next_u64();
    cell.constraints = Constraints::new([-3.0; 6], [3.0; 6], 0.0);
    cell.safety = if rng.bool(0.6) { SafetySpec::touch(CheckMode::FirstCollisionOnly) } else { cell.random_safety(rng, CheckMode::FirstCollisionOnly) };
    if cell.safety.to_robot_default > 0.02 {
        cell.safety.to_robot_default = 0.005;
    }
    let probe = cell.build();
    let start = free_posture(rng, &cell, &probe)?;
    let layout = *rng.pick(&["free", "obstacle", "obstacle", "near_goal", "tiny_budget", "narrow_limits", "narrow_limits", "goal_turn_away", "tiny_cell", "no_environment"]);
    let step = if layout == "narrow_limits" { rng.range(6.0, 14.0f64).to_radians() } else if layout == "tiny_cell" { rng.range(0.07, 0.12) } else { rng.range(2.0, 12.0f64).to_radians() };
    if layout == "no_environment" {
        // nothing but the robot's own parts (links, tool, base) can be hit
        cell.env.clear();
        cell.safety.special.retain(|((a, b), _)| *a < 1000 && *b < 1000);
    }
    let goal = if layout == "near_goal" {
        let mut g = start;
        let j = rng.usize(6);
        // a third of these goals differs from the start by rounding residue only (one ulp, 1e-12 rad, a
        // degree round trip, identical): the path still has to end with the goal bit for bit
        match rng.usize(6) {
            0 => g[j] = f64::from_bits(g[j].to_bits() + 1),
            1 => {
                for k in 0..6 {
                    g[k] = g[k].to_degrees().to_radians();
                }
                g[j] += 1e-12;
            }
            2 => {
                if rng.bool(0.5) {
                    g[j] += rng.sign() * rng.logu(1e-14, 1e-7);
                }
            }
            _ => g[j] += rng.sign() * step * rng.range(0.1, 0.9),
        }
        if probe.collides(&g) || g[j].abs() > 3.0 {
            return None;
        }
        g
    } else {
        free_posture(rng, &cell, &probe)?
    };
    let mut goal = goal;
    if layout == "goal_turn_away" {
        // the goal is given by a representative a full turn away (what inverse_continuing returns next to
        // a previous vector near +-pi): it satisfies the limits as an angle, but lies outside the [from,to] box
        cell.constraints = Constraints::new([-3.0; 6], [3.0; 6], 0.0);
        let j = rng.usize(6);
        goal[j] += if goal[j] > 0.0 { -2.0 * std::f64::consts::PI } else { 2.0 * std::f64::consts::PI };
        // half of these cells leave one OTHER joint unlimited (from == to): the limits of the rest still hold
        if rng.bool(0.5) {
            let k = (j + 1 + rng.usize(5)) % 6;
            let (mut lf, mut lt) = ([-3.0; 6], [3.0; 6]);
            lf[k] = 0.0;
            lt[k] = 0.0;
            cell.constraints = Constraints::new(lf, lt, 0.0);
        }
    }
    if layout == "tiny_cell" {
        // start and goal 3 .. 3.6 planner steps apart inside a box that hugs the straight segment (0.1 .. 0.4 step of
        // margin): the first sample lands one to two steps from the start, nearly on the line to the goal, and the
        // other tree connects with a remainder - edges and the junction hop are as long as the planner ever makes them
        let dir: [f64; 6] = std::array::from_fn(|_| rng.normal());
        let n = dir.iter().map(|x| x * x).sum::<f64>().sqrt().max(1e-9);
        let dist = step * rng.range(3.0, 3.6);
        let (mut from, mut to) = (start, start);
        for j in 0..6 {
            goal[j] = start[j] + dir[j] / n * dist;
            let m = step * rng.range(0.1, 0.4);
            from[j] = start[j].min(goal[j]) - m;
            to[j] = start[j].max(goal[j]) + m;
        }
        if goal.iter().any(|g| g.abs() > 3.0) {
            return None;
        }
        cell.constraints = Constraints::new(from, to, 0.0);
        if cell.build().collides(&goal) {
            return None;
        }
    }
    if layout == "narrow_limits" {
        // three or four joints are locked to a fraction of a degree around the start value: sampling
        // becomes effectively low-dimensional, so random samples regularly land within one step of
        // an existing tree node (the branch of extend() that adopts the sample itself)
        let mut from = [-3.0; 6];
        let mut to = [3.0; 6];
        let mut locked = 0;
        for j in (0..6).rev() {
            if locked < 3 + (idx % 2) as usize && rng.bool(0.8) {
                let w = rng.range(0.2, 1.0f64).to_radians();
                from[j] = start[j] - w;
                to[j] = start[j] + w;
                goal[j] = start[j] + rng.range(-0.9, 0.9) * w;
                locked += 1;
            }
        }
        cell.constraints = Constraints::new(from, to, 0.0);
        if cell.build().collides(&goal) {
            return None;
        }
        // an obstacle on the straight line makes the trees grow sideways
        if rng.bool(0.7) {
            let mid: [f64; 6] = std::array::from_fn(|j| (start[j] + goal[j]) / 2.0);
            let tgt = 1 + rng.usize(3);
            cell.add_designed_obstacle(rng, &mid, tgt, -0.02);
            let r2 = cell.build();
            if r2.collides(&start) || r2.collides(&goal) {
                cell.env.pop();
            }
        }
    }
    if layout == "no_environment" && cell.base.is_some() {
        // the only thing in the way is the robot's own base, shaped as a box in the middle of the straight move
        let mid: [f64; 6] = std::array::from_fn(|j| (start[j] + goal[j]) / 2.0);
        let saved = cell.base.clone();
        let tgt = 1 + rng.usize(5);
        cell.design_base(rng, &mid, tgt, -0.02);
        let r2 = cell.build();
        if r2.collides(&start) || r2.collides(&goal) {
            cell.base = saved;
        }
    }
    if layout == "obstacle" {
        let mid: [f64; 6] = std::array::from_fn(|j| (start[j] + goal[j]) / 2.0);
        let target = if cell.tool.is_some() && rng.bool(0.3) { J_TOOL } else { 1 + rng.usize(5) };
        cell.add_designed_obstacle(rng, &mid, target, -0.02);
        let r2 = cell.build();
        if r2.collides(&start) || r2.collides(&goal) {
            cell.env.pop();
        }
    }
    // a tenth of the scenes: the start (or the goal) lies 1e-12 .. 9e-11 rad BEYOND one of its limits - still accepted
    // by the limits' own boundary slack; the path must nevertheless begin / end with the given vector bit for bit
    if rng.bool(0.1) && layout != "goal_turn_away" {
        let c = cell.constraints;
        let j = rng.usize(6);
        if c.from[j] < c.to[j] && c.to[j] - c.from[j] < 6.0 {
            let (mut lf, mut lt) = (c.from, c.to);
            let d = rng.logu(1e-12, 9e-11);
            match rng.usize(4) {
                0 => lf[j] = start[j] + d,
                1 => lt[j] = start[j] - d,
                2 => lf[j] = goal[j] + d,
                _ => lt[j] = goal[j] - d,
            }
            let c2 = Constraints::new(lf, lt, 0.0);
            if lf[j] < lt[j] && c2.compliant(&start) && c2.compliant(&goal) {
                cell.constraints = c2;
            }
        }
    }
    // a seventh of the ordinary scenes: one or two joints get asymmetric non-wrapping limits that reach beyond +pi
    // (span 5 .. 6.2 rad starting just below the smaller of start / goal)
    if (layout == "free" || layout == "obstacle" || layout == "near_goal") && rng.usize(7) == 0 {
        let c = cell.constraints;
        let (mut lf, mut lt) = (c.from, c.to);
        for _ in 0..(1 + rng.usize(2)) {
            let j = rng.usize(6);
            lf[j] = start[j].min(goal[j]) - rng.range(0.05, 0.5);
            lt[j] = lf[j] + rng.range(5.0, 6.2);
        }
        let c2 = Constraints::new(lf, lt, 0.0);
        if c2.compliant(&start) && c2.compliant(&goal) {
            cell.constraints = c2;
        }
    }
    let max_try = if layout == "tiny_budget" { 1 + rng.usize(4) } else { 300 + rng.usize(500) };
    // one free scene in ten is a short relocation (300 .. 1500 steps) planned with a step of 1e-6 .. 5e-5 rad
    let (goal, step) = if layout == "free" && rng.usize(10) == 0 {
        let st = rng.logu(1e-6, 5e-5);
        let dir: [f64; 6] = std::array::from_fn(|_| rng.normal());
        let n = dir.iter().map(|x| x * x).sum::<f64>().sqrt().max(1e-9);
        let dist = st * rng.range(300.0, 1500.0);
        let g: [f64; 6] = std::array::from_fn(|j| start[j] + dir[j] / n * dist);
        if cell.build().collides(&g) || !cell.constraints.compliant(&g) { (goal, step) } else { (g, st) }
    } else {
        (goal, step)
    };
    // one scene in twelve is planned with a step of 1.2 .. 6 rad (more than a sixth of a turn per hop)
    let step = if rng.usize(12) == 0 && layout != "tiny_cell" && layout != "narrow_limits" { rng.range(1.2, 6.0) } else { step };
    Some(Scene { cell, start, goal, layout, step, max_try })
}

fn build_spied(cell: &Cell, cb: Option<crate::spy::Callback>) -> (KinematicsWithShape, Arc<Spy>) {
    let spy = Arc::new(match cb {
        Some(cb) => Spy::with_callback(cell.kinematics(), cb),
        None => Spy::new(cell.kinematics()),
    });
    let k: Arc<dyn Kinematics> = spy.clone();
    (KinematicsWithShape { kinematics: k, body: cell.body() }, spy)
}

fn long_connect(idx: u64, rng: &mut Rng, mon: &mut Mon) {
    let mut cell = Cell::generate(rng, idx, true, true, false);
    cell.constraints = Constraints::new([-3.0; 6], [3.0; 6], 0.0);
    cell.safety = SafetySpec::touch(CheckMode::FirstCollisionOnly);
    let probe = cell.build();
    let start = match free_posture(rng, &cell, &probe) {
        Some(s) => s,
        None => {
            mon.inconclusive("long_connect:no-free-start");
            return;
        }
    };
    let step = 1e-5;
    let mut goal = start;
    let j = rng.usize(6);
    goal[j] += if start[j] > 0.0 { -0.75 } else { 0.75 };
    if probe.collides(&goal) {
        mon.inconclusive("long_connect:goal-collides");
        return;
    }
    let s = Scene { cell, start, goal, layout: "long_connect", step, max_try: 20 };
    let (robot, spy) = build_spied(&s.cell, None);
    let planner = RRTPlanner { step_size_joint_space: s.step, max_try: s.max_try, debug: false };
    let stop = AtomicBool::new(false);
    let res = guarded(|| planner.plan_rrt(&s.start, &s.goal, &robot, &stop));
    let log = spy.take();
    mon.count("long_connect.plans");
    match res {
        Err(msg) => mon.violation("plan:panic", "plan_rrt panicked", json!({"scene": scene_json(&s), "panic": msg})),
        Ok(Err(_)) => mon.inconclusive("long_connect:planning-failed"),
        Ok(Ok(path)) => {
            mon.count_n("long_connect.nodes", path.len() as u64);
            if check_path(mon, &s, &robot, &path, &log) {
                mon.held_n(path.len() as u64);
                mon.nontrivial(hash_combine(hash_f64s(&s.start), idx));
            }
        }
    }
}

fn run_case(kind: &str, idx: u64, rng: &mut Rng, mon: &mut Mon, _tier: Tier) {
    if kind == "long_connect" {
        return long_connect(idx, rng, mon);
    }
    let scene = match gen_scene(rng, idx) {
        Some(s) => s,
        None => {
            mon.inconclusive("no-collision-free-start-or-goal");
            return;
        }
    };
    if kind == "paths" {
        paths(idx, rng, mon, &scene)
    } else {
        cancel(idx, rng, mon, &scene)
    }
}

fn scene_json(s: &Scene) -> serde_json::Value {
    json!({"cell": s.cell.json(), "start": jf(&s.start), "goal": jf(&s.goal), "layout": s.layout, "step": s.step, "max_try": s.max_try})
}

/// offline checker of one returned path against the recorded spy log
fn check_path(mon: &mut Mon, s: &Scene, robot: &KinematicsWithShape, path: &Vec<[f64; 6]>, log: &Vec<Event>) -> bool {
    let detail = |what: &str, extra: serde_json::Value| json!({"scene": scene_json(s), "path": path.iter().map(|p| jf(p)).collect::<Vec<_>>(), "clause": what, "extra": extra});
    let mut ok = true;
    if path.is_empty() {
        mon.violation("path:empty", "planner returned an empty path", detail("endpoints", json!({})));
        return false;
    }
    let be = |a: &[f64; 6], b: &[f64; 6]| (0..6).all(|j| a[j].to_bits() == b[j].to_bits());
    if !be(&path[0], &s.start) {
        ok = false;
        mon.violation("path:does-not-begin-with-start", "the path does not begin with the start vector exactly", detail("endpoints", json!({"first": jf(&path[0])})));
    }
    if !be(&path[path.len() - 1], &s.goal) {
        ok = false;
        mon.violation("path:does-not-end-with-goal", "the path does not end with the goal vector exactly", detail("endpoints", json!({"last": jf(&path[path.len() - 1])})));
    }
    let queried: std::collections::HashSet<[u64; 6]> = log.iter().filter(|e| e.method == Method::Links).map(|e| e.joints.unwrap().map(|x| x.to_bits())).collect();
    let cons = s.cell.constraints;
    for (k, node) in path.iter().enumerate() {
        mon.count("paths.nodes_checked");
        if robot.collides(node) {
            ok = false;
            mon.violation(&format!("path:colliding-node:{}", s.layout), "a path node is reported colliding by the same robot", detail("free", json!({"index": k, "node": jf(node)})));
            break;
        }
        // (literal reading for non-wrapping limits: a node a whole turn away from the box is not "within limits",
        // although it is the same angle - evaluated when the caller's own start and goal are literally inside)
        let literal_inside = |v: &[f64; 6]| (0..6).all(|j| cons.from[j] >= cons.to[j] || cons.to[j] - cons.from[j] >= 2.0 * std::f64::consts::PI || (v[j] >= cons.from[j] - 1e-9 && v[j] <= cons.to[j] + 1e-9));
        if literal_inside(&s.start) && literal_inside(&s.goal) && !literal_inside(node) {
            ok = false;
            mon.violation("path:node-outside-the-limit-box", "a path node lies outside [from, to] of a non-wrapping range although start and goal lie inside", detail("limits-literal", json!({"index": k, "node": jf(node), "from": jf(&cons.from), "to": jf(&cons.to)})));
            break;
        }
        if !cons.compliant(node) {
            ok = false;
            mon.violation("path:node-out-of-limits", "a path node is outside the (non-wrapping) joint limits", detail("limits", json!({"index": k, "node": jf(node)})));
            break;
        }
        if k > 0 {
            let d: f64 = (0..6).map(|j| (node[j] - path[k - 1][j]).powi(2)).sum::<f64>().sqrt();
            mon.max("hop_in_steps", d / s.step);
            if d > 3.0 * s.step + 1e-9 {
                ok = false;
                mon.violation("path:hop-too-long", "consecutive path nodes are more than three planner steps apart", detail("hops", json!({"index": k, "distance": d, "step": s.step})));
                break;
            }
        }
        // provenance: interior nodes must have been collision-checked by the planner
        if k > 0 && k + 1 < path.len() && !queried.contains(&node.map(|x| x.to_bits())) {
            ok = false;
            mon.violation("path:node-never-collision-checked", "an interior path node was never submitted to the collision check by the planner", detail("provenance", json!({"index": k, "node": jf(node)})));
            break;
        }
    }
    ok
}

fn paths(idx: u64, rng: &mut Rng, mon: &mut Mon, s: &Scene) {
    // (the low-dimensional layout is where an unchecked sample can enter a tree: more plannings there)
    let repeats = if s.layout == "narrow_limits" { 12 } else if s.layout == "tiny_cell" { 250 } else { 4 };
    mon.count(&format!("layout.{}", s.layout));
    for _ in 0..repeats {
        let (robot, spy) = build_spied(&s.cell, None);
        let planner = RRTPlanner { step_size_joint_space: s.step, max_try: s.max_try, debug: false };
        let stop = AtomicBool::new(false);
        let res = guarded(|| planner.plan_rrt(&s.start, &s.goal, &robot, &stop));
        let log = spy.take();
        mon.count("paths.plans");
        match res {
            Err(msg) => mon.violation("plan:panic", "plan_rrt panicked", json!({"scene": scene_json(s), "panic": msg})),
            Ok(Err(e)) => {
                mon.count(&format!("paths.err.{}", e));
                mon.held();
            }
            Ok(Ok(path)) => {
                mon.count("paths.returned");
                mon.seen("path_lengths", format!("{}", path.len()));
                if check_path(mon, s, &robot, &path, &log) {
                    mon.held_n(path.len() as u64);
                    if path.len() >= 3 {
                        mon.nontrivial(hash_combine(hash_f64s(&path.concat()), idx));
                    }
                }
            }
        }
    }
    let _ = rng;
    if idx < 2 {
        mon.sample(json!({"kind": "paths", "layout": s.layout, "start": jf(&s.start), "goal": jf(&s.goal), "step_deg": s.step.to_degrees(), "max_try": s.max_try}));
    }
}

fn cancel(idx: u64, rng: &mut Rng, mon: &mut Mon, s: &Scene) {
    mon.count(&format!("layout.{}", s.layout));
    // (a) flag raised before the call
    {
        let (robot, _spy) = build_spied(&s.cell, None);
        let planner = RRTPlanner { step_size_joint_space: s.step, max_try: s.max_try, debug: false };
        // the caller raises the flag once and never lowers it: every call sharing it must fail (one flag
        // is shared by several planners / calls, as the Cartesian planner does with its strategies)
        let stop = AtomicBool::new(true);
        for call_no in 0..3 {
            match guarded(|| planner.plan_rrt(&s.start, &s.goal, &robot, &stop)) {
                Err(msg) => mon.violation("cancel:panic", "plan_rrt panicked", json!({"scene": scene_json(s), "panic": msg})),
                Ok(Ok(path)) => {
                    mon.violation(&format!("cancel:pre-raised-flag-ignored:call{}:{}", call_no, s.layout), "a path was returned although the caller raised the cancellation flag before the call and never lowered it", json!({"scene": scene_json(s), "call": call_no, "path_len": path.len(), "flag_still_raised": stop.load(Ordering::SeqCst)}));
                    break;
                }
                Ok(Err(_)) => {
                    mon.held();
                    mon.count("cancel.pre_raised_ok");
                }
            }
        }
    }
    // (b) flag raised by the spy at the k-th collision query
    for _ in 0..3 {
        let k = 1 + rng.usize(40) as u64;
        let stop = Arc::new(AtomicBool::new(false));
        let raised_at = Arc::new(AtomicU64::new(u64::MAX));
        let count = Arc::new(AtomicU64::new(0));
        let (st, ra, cn) = (stop.clone(), raised_at.clone(), count.clone());
        let cb: crate::spy::Callback = Box::new(move |e: &Event| {
            if e.method == Method::Links {
                let n = cn.fetch_add(1, Ordering::SeqCst) + 1;
                if n == k {
                    st.store(true, Ordering::SeqCst);
                    ra.store(e.seq, Ordering::SeqCst);
                }
            }
        });
        let (robot, spy) = build_spied(&s.cell, Some(cb));
        let planner = RRTPlanner { step_size_joint_space: s.step, max_try: s.max_try, debug: false };
        let res = guarded(|| planner.plan_rrt(&s.start, &s.goal, &robot, &stop));
        let log = spy.take();
        let raised = raised_at.load(Ordering::SeqCst);
        if raised == u64::MAX {
            mon.inconclusive("cancel:planning-finished-before-the-kth-query");
            continue;
        }
        mon.count("cancel.interrupted");
        let later_samples = log.iter().filter(|e| e.method == Method::Constraints && e.seq > raised).count();
        let later_queries = log.iter().filter(|e| e.method == Method::Links && e.seq > raised).count();
        mon.max("cancel.collision_queries_after_raise", later_queries as f64);
        let detail = |extra: serde_json::Value| json!({"scene": scene_json(s), "k": k, "samples_after_raise": later_samples, "collision_queries_after_raise": later_queries, "extra": extra});
        if later_samples > 0 {
            mon.violation("cancel:sampling-continued-after-raise", "the planner drew new samples after the cancellation flag was raised", detail(json!({})));
            continue;
        }
        match res {
            Err(msg) => mon.violation("cancel:panic", "plan_rrt panicked", detail(json!({"panic": msg}))),
            Ok(Err(_)) => {
                mon.held();
                mon.nontrivial(hash_combine(idx, k ^ hash_f64s(&s.start)));
                // the caller has not lowered the flag: a second call sharing it must fail as well
                match guarded(|| planner.plan_rrt(&s.start, &s.goal, &robot, &stop)) {
                    Ok(Ok(p2)) => mon.violation(&format!("cancel:raised-flag-ignored-by-next-call:{}", s.layout), "after a cancelled call, the next call sharing the still raised flag returned a path", detail(json!({"path_len": p2.len(), "flag_still_raised": stop.load(Ordering::SeqCst)}))),
                    Ok(Err(_)) => {
                        mon.held();
                        mon.count("cancel.second_call_failed_too");
                    }
                    Err(msg) => mon.violation("cancel:panic", "plan_rrt panicked", detail(json!({"panic": msg}))),
                }
            }
            Ok(Ok(path)) => {
                // allowed only if the iteration in progress completed the connection; the path must still be valid
                mon.count("cancel.connection_completed_in_progress");
                if check_path(mon, s, &robot, &path, &log) {
                    mon.held();
                }
            }
        }
    }
    if idx < 1 {
        mon.sample(json!({"kind": "cancel", "layout": s.layout, "start": jf(&s.start), "goal": jf(&s.goal)}));
    }
}
