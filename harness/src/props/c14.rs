//! C14 — single-joint offsets offered to search planners are legal and collision-free.

use crate::cell::*;
use crate::gen::*;
use crate::props::c10::{category, gen_posture};
use crate::report::{hash_combine, hash_f64s, jf, Mon};
use crate::rng::Rng;
use crate::{Kind, Prop, Spec, Tier};
use rs_opw_kinematics::collisions::CheckMode;
use rs_opw_kinematics::constraints::Constraints;
use rs_opw_kinematics::kinematic_traits::{ENV_START_IDX, J_TOOL};
use serde_json::json;

pub fn prop() -> Prop {
    Prop { id: "C14", spec, run_case, finalize: None }
}

fn spec() -> Spec {
    Spec {
        kinds: vec![Kind { name: "offsets", quick: 8_000, thorough: 400_000, serial: false }],
        rule: "each case = synthetic cell (coarse box meshes; with/without base and tool; 0..3 obstacles placed next to links of the initial or of an offset posture; touch-only or distance safety tables incl. exemptions; modes first/all) x collision-free initial vector x from/to vectors (each joint moved by 0.05..3 rad either way, some beyond the limits) x rayon pool size in {1,2,4,16}; the result of non_colliding_offsets must equal, in order, the up-to-twelve single-joint replacements that satisfy the limits and for which the same robot's full collides() is false. non-trivial = some candidates kept and some rejected for collision; distinct = hash(cell, initial, from, to) Workload additions: a third of the cells with a forbidden arc opposite to the current value written as a wrap-around range and replacement values on another turn; designed base meshes next to links of J1..J3 offset postures (half of them without environment); off-origin obstacle meshes. Rounds 7-9: unconstrained joints (from == to) among the limits; both replacement values on one side of the current value. Round 10: replacement values 0.3..2.5 mrad from the current value with an obstacle overlapping the stepped link by less than its sweep; a second call on the same robot object after one obstacle or the safety table was overwritten in place.",
        assumptions: vec![
            "precondition of the API: the initial vector is collision free (checked with the same robot's collides(); other cases are skipped as inconclusive)",
            "'reported free' is the same robot's full collides() (its agreement with geometry is C10's subject)",
        ],
        minimums: vec![("oracle_evals", 20_000, 1_200_000), ("candidates.colliding", 2_000, 120_000), ("candidates.free", 10_000, 600_000), ("candidates.out_of_limits", 500, 30_000), ("tiny_step_candidates_colliding", 50, 2_500), ("second_calls_after_an_edit_in_place", 800, 40_000)],
    }
}

fn run_case(_kind: &str, idx: u64, rng: &mut Rng, mon: &mut Mon, _tier: Tier) {
    let with_tool = rng.bool(0.7);
    let with_base = rng.bool(0.7);
    let mut cell = Cell::generate(rng, idx, with_tool, with_base, false);
    cell.constraints = Constraints::new([-3.0; 6], [3.0; 6], 0.0);
    // a posture that is likely collision free: near upright
    let mut t = gen_posture(rng);
    if rng.bool(0.6) {
        for j in 1..5 {
            t[j] = rng.range(-0.5, 0.5);
        }
    }
    let initial = cell.robot.rp.from_theta(&t);
    // keep the initial vector inside the limits
    let mut initial: [f64; 6] = std::array::from_fn(|j| initial[j].max(-2.9).min(2.9));
    // a share of the initial vectors is collision free but outside the limits on one joint: candidates
    // that keep the illegal value must not be offered
    let illegal_initial = rng.bool(0.15);
    if illegal_initial {
        let j = rng.usize(6);
        initial[j] = rng.sign() * rng.range(3.03, 3.12);
        mon.count("initial_out_of_limits_cases");
    }
    let mut from = initial;
    let mut to = initial;
    for j in 0..6 {
        from[j] -= rng.logu(0.05, 3.0);
        to[j] += rng.logu(0.05, 3.0);
    }
    // a third of the cells: one joint has a forbidden arc of 0.5..2 rad opposite to its current value, written
    // as the complementary range (usually wrap-around, from > to), and its replacement values are given on
    // another turn / across the seam (legal as angles although the plain mean with the current value is not)
    if !illegal_initial && rng.bool(0.33) {
        let j = rng.usize(6);
        let w = rng.range(0.5, 2.0);
        let wrap = |a: f64| (a + std::f64::consts::PI).rem_euclid(2.0 * std::f64::consts::PI) - std::f64::consts::PI;
        let c = initial[j] + std::f64::consts::PI;
        let (mut lf, mut lt) = ([-3.0; 6], [3.0; 6]);
        lf[j] = wrap(c + w / 2.0);
        lt[j] = wrap(c - w / 2.0);
        if lf[j] != lt[j] && cell.constraints.compliant(&initial) {
            cell.constraints = Constraints::new(lf, lt, 0.0);
            to[j] = initial[j] + 2.0 * std::f64::consts::PI + rng.range(-0.9, 0.9) * w;
            from[j] = initial[j] - 2.0 * std::f64::consts::PI + rng.range(-0.9, 0.9) * w;
            mon.count(if lf[j] > lt[j] { "cells_with_a_wrap_around_range" } else { "cells_with_a_forbidden_arc" });
        }
    }
    // a sixth of the cells: for one or two joints BOTH replacement values lie on the same side of the current value
    // (a search that sweeps a joint in one direction with two step lengths)
    if rng.usize(6) == 0 {
        for _ in 0..(1 + rng.usize(2)) {
            let j = rng.usize(6);
            let sgn = rng.sign();
            let (near, far) = (rng.range(0.05, 0.6), rng.range(0.7, 2.0));
            let (a, b) = (initial[j] + sgn * near, initial[j] + sgn * far);
            if rng.bool(0.5) {
                from[j] = a;
                to[j] = b;
            } else {
                from[j] = b;
                to[j] = a;
            }
        }
        mon.count("cells_with_both_targets_on_one_side");
    }
    // a fifth of the cells declares one or two joints with from == to, i.e. unconstrained (a continuous J6, a joint
    // without <limit>): their replacements are legal whatever the values
    if !illegal_initial && rng.bool(0.2) {
        let c = cell.constraints;
        let (mut lf, mut lt) = (c.from, c.to);
        for _ in 0..(1 + rng.usize(2)) {
            let j = rng.usize(6);
            let v = *rng.pick(&[0.0, rng.clone().range(-3.0, 3.0)]);
            lf[j] = v;
            lt[j] = v;
        }
        cell.constraints = Constraints::new(lf, lt, 0.0);
        mon.count("cells_with_unconstrained_joints");
    }
    // obstacles next to links of an offset posture (so that offsets collide) or far away
    let n_obs = rng.usize(4);
    for _ in 0..n_obs {
        let j = rng.usize(6);
        // make that joint's offset large enough that the obstacle does not also hit the initial posture
        let side = rng.bool(0.5);
        if side {
            from[j] = from[j].min(initial[j] - rng.range(0.5, 2.5));
        } else {
            to[j] = to[j].max(initial[j] + rng.range(0.5, 2.5));
        }
        let mut cand = initial;
        cand[j] = if side { from[j] } else { to[j] };
        let target = if with_tool && rng.bool(0.25) { J_TOOL } else { j + rng.usize(6 - j) };
        if rng.bool(0.85) {
            cell.add_designed_obstacle(rng, &cand, target, rng.clone().range(-0.03, 0.004));
            let _ = rng.next_u64();
        } else {
            cell.add_random_obstacle(rng);
        }
    }
    let mode = if rng.bool(0.5) { CheckMode::FirstCollisionOnly } else { CheckMode::AllCollsions };
    cell.safety = if rng.bool(0.5) { SafetySpec::touch(mode) } else { cell.random_safety(rng, mode) };
    if cell.safety.to_robot_default > 0.02 {
        cell.safety.to_robot_default = 0.008;
    }
    // a seventh of the cells: one replacement value is a very small step (0.3 .. 2.5 mrad) and an obstacle overlaps the
    // link of that joint (or a later one) at the stepped posture by less than the link's far end sweeps in the step
    let mut tiny: Option<(usize, &'static str)> = None;
    if rng.usize(7) == 0 {
        let j = rng.usize(4);
        let step = rng.logu(3e-4, 2.5e-3);
        let side = rng.bool(0.5);
        if side { from[j] = initial[j] - step } else { to[j] = initial[j] + step }
        let mut cand = initial;
        cand[j] = if side { from[j] } else { to[j] };
        let target = if rng.bool(0.6) { j } else { j + rng.usize(6 - j) };
        // the face of the target box that the step moves outwards the most (seen from the stepped posture); the overlap
        // is a part of that movement, so the obstacle is clear of the link at the current value
        let (fi, fc) = (cell.link_frames(&initial)[target], cell.link_frames(&cand)[target]);
        let (h, c) = (cell.links[target].box_half.unwrap(), cell.links[target].box_centre);
        let mut best = (0usize, 1.0f64, 0.0f64);
        for k in 0..3 {
            for sgn in [-1.0, 1.0] {
                let mut pl = c;
                pl[k] += sgn * h[k];
                let mut e = [0.0; 3];
                e[k] = sgn;
                let n = crate::refmodel::mv(&fc.r, e);
                let moved = crate::refmodel::dot(crate::refmodel::sub(fc.apply(pl), fi.apply(pl)), n);
                if moved > best.2 {
                    best = (k, sgn, moved);
                }
            }
        }
        // (up to six draws of size and lateral position until the obstacle really separates the two postures for this
        // robot and table - free at the current value, reported colliding at the stepped one)
        if best.2 > 1e-5 {
            for _ in 0..6 {
                let d = -rng.range(0.2, 0.7) * best.2;
                let i = cell.add_designed_obstacle_at(rng, &cand, target, d, Some((best.0, best.1)));
                let probe = cell.build();
                if !probe.collides(&initial) && probe.collides(&cand) {
                    mon.count("tiny_step_obstacles_that_separate_the_two_postures");
                    break;
                }
                cell.env.remove(i);
            }
        }
        tiny = Some((j, if side { "from" } else { "to" }));
        mon.count("cells_with_a_tiny_step");
    }
    // a sixth of the cells with a base: the base mesh is a designed box next to a link or the tool of an offset
    // posture of J1..J3 (half of them without any environment): the candidate must be withheld because of the base
    if with_base && rng.bool(0.17) {
        let j = rng.usize(3);
        let side = rng.bool(0.5);
        if side {
            from[j] = from[j].min(initial[j] - rng.range(0.5, 2.5));
        } else {
            to[j] = to[j].max(initial[j] + rng.range(0.5, 2.5));
        }
        let mut cand = initial;
        cand[j] = if side { from[j] } else { to[j] };
        let target = if with_tool && rng.bool(0.3) { J_TOOL } else { j.max(1) + rng.usize(6 - j.max(1)) };
        let gap = rng.range(-0.03, 0.004);
        cell.design_base(rng, &cand, target, gap);
        if rng.bool(0.5) {
            cell.env.clear();
        }
        mon.count("cells_with_a_designed_base");
    }
    // a quarter of the robots has a parallelogram (J2 drives J3) on top of the stack: a single-joint move
    // of J2 then also moves the links behind J3 relative to the upper arm
    let with_para = rng.bool(0.25);
    let build = |cell: &Cell| {
        let mut r = cell.build();
        if with_para {
            r.kinematics = std::sync::Arc::new(rs_opw_kinematics::parallelogram::Parallelogram { robot: r.kinematics.clone(), scaling: 1.0, driven: 1, coupled: 2 });
        }
        r
    };
    if with_para {
        mon.count("cells_with_parallelogram");
    }
    // a planner that clamps its step vectors to the limits produces from/to entries equal to the current value
    if rng.bool(0.1) {
        let j = rng.usize(6);
        if rng.bool(0.5) { from[j] = initial[j] } else { to[j] = initial[j] }
        mon.count("cases_with_a_replacement_equal_to_the_current_value");
    }
    let mut robot = build(&cell);
    // obstacles that also hit the initial posture are removed (the API presupposes a free start)
    while robot.collides(&initial) && !cell.env.is_empty() {
        cell.env.pop();
        cell.safety.special.retain(|((a, b), _)| *a < ENV_START_IDX + cell.env.len() && *b < ENV_START_IDX + cell.env.len());
        robot = build(&cell);
        mon.count("obstacles_removed_because_they_hit_the_initial_posture");
    }
    if robot.collides(&initial) {
        let pairs = robot.near(&initial, &{ let mut s = cell.safety.build(); s.mode = CheckMode::AllCollsions; s });
        if let Some(p) = pairs.first() {
            mon.count(&format!("initial_collision.{}.{}-{}", category(p.0, p.1), p.0, p.1.min(1000)));
        }
        mon.inconclusive("initial-vector-collides");
        return;
    }
    let pool_size = *rng.pick(&[1usize, 2, 4, 16]);
    let clause = |mon: &mut Mon, robot: &rs_opw_kinematics::kinematics_with_shape::KinematicsWithShape, cell: &Cell, tag: &str| -> (Vec<(usize, &'static str, &'static str)>, usize) {
        // expected: candidates in task order (joint 0 from, joint 0 to, joint 1 from, ...)
        let cons = cell.constraints;
        let mut expected: Vec<[f64; 6]> = vec![];
        let mut why: Vec<(usize, &str, &str)> = vec![];
        for j in 0..6 {
            for (name, tgt) in [("from", &from), ("to", &to)] {
                let mut c = initial;
                c[j] = tgt[j];
                if !cons.compliant(&c) {
                    mon.count("candidates.out_of_limits");
                    why.push((j, name, "out-of-limits"));
                    continue;
                }
                if robot.collides(&c) {
                    mon.count("candidates.colliding");
                    why.push((j, name, "colliding"));
                    continue;
                }
                mon.count("candidates.free");
                why.push((j, name, "free"));
                expected.push(c);
            }
        }
        let n_coll = why.iter().filter(|w| w.2 == "colliding").count();
        if n_coll > 0 && !expected.is_empty() {
            mon.nontrivial(hash_combine(hash_combine(crate::props::robot_hash(&cell.robot), hash_f64s(&initial)), hash_f64s(&[from, to].concat())));
        }
        let pool = rayon::ThreadPoolBuilder::new().num_threads(pool_size).build().unwrap();
        let got = pool.install(|| robot.non_colliding_offsets(&initial, &from, &to));
        mon.count(&format!("pool.{}", pool_size));
        let detail = |extra: serde_json::Value| json!({"cell": cell.json(), "history": tag, "initial": jf(&initial), "from": jf(&from), "to": jf(&to), "pool": pool_size,
            "candidates": why.iter().map(|(j, n, w)| json!([j, n, w])).collect::<Vec<_>>(), "extra": extra});
        let same = got.len() == expected.len() && got.iter().zip(expected.iter()).all(|(a, b)| a == b);
        if same {
            mon.held_n(12);
        } else {
            // diagnose the first difference
            let mut reported = false;
            for g in &got {
                if !expected.iter().any(|e| e == g) {
                    let j = (0..6).find(|j| g[*j] != initial[*j]).unwrap_or(0);
                    let reason = if !cons.compliant(g) { "out-of-limits".to_string() } else {
                        // which pair makes it collide: ask the full report
                        let pairs = robot.near(g, &{ let mut s = cell.safety.build(); s.mode = CheckMode::AllCollsions; s });
                        let p = pairs.first().cloned().unwrap_or((0, 0));
                        let moved = |id: usize| id < 6 && id >= j || id == J_TOOL;
                        let kind = match (moved(p.0), moved(p.1)) {
                            (true, true) => "moved-vs-moved",
                            (false, false) => "unmoved-vs-unmoved",
                            _ => if p.1 >= ENV_START_IDX || p.0 >= ENV_START_IDX { "moved-vs-environment" } else { "moved-vs-unmoved" },
                        };
                        format!("colliding:{}:{}", kind, category(p.0, p.1))
                    };
                    mon.violation(&format!("{}offered-illegal:{}", tag, reason), "a neighbour configuration that is out of limits or reported colliding was offered", detail(json!({"offered": jf(g), "moved_joint": j, "got": got.iter().map(|s| jf(s)).collect::<Vec<_>>()})));
                    reported = true;
                    break;
                }
            }
            if !reported {
                for e in &expected {
                    if !got.iter().any(|g| g == e) {
                        let j = (0..6).find(|j| e[*j] != initial[*j]).unwrap_or(0);
                        mon.violation(&format!("{}withheld-legal:joint{}", tag, j + 1), "a neighbour configuration that is within limits and reported free was withheld", detail(json!({"withheld": jf(e), "moved_joint": j, "got": got.iter().map(|s| jf(s)).collect::<Vec<_>>()})));
                        reported = true;
                        break;
                    }
                }
            }
            if !reported {
                mon.violation(&format!("{}offsets-order-or-duplicates", tag), "the offered list has the right members but a different order / multiplicity", detail(json!({"got": got.iter().map(|s| jf(s)).collect::<Vec<_>>()})));
            }
        }
        (why, got.len())
    };
    let (why, offered) = clause(mon, &robot, &cell, "");
    if let Some((tj, tname)) = tiny {
        if why.iter().any(|w| w.0 == tj && w.1 == tname && w.2 == "colliding") {
            mon.count("tiny_step_candidates_colliding");
        }
    }
    // A third of the cases asks the SAME robot object again after editing it in place (all fields are public): one
    // obstacle is moved (its number stays), or the safety table is replaced; the candidates are bit-identical to those
    // of the first call. The answer must follow the robot as it is now.
    if rng.usize(3) == 0 {
        let mut cell2 = cell.clone();
        let edit = rng.usize(3);
        if edit < 2 && !cell2.env.is_empty() {
            let k = rng.usize(cell2.env.len());
            if edit == 0 {
                // far away: candidates it blocked become free
                cell2.env[k].1.p[2] += 20.0 * cell2.scale.max(0.3);
            } else {
                // onto a link of another candidate posture
                let j = rng.usize(6);
                let mut cand = initial;
                cand[j] = if rng.bool(0.5) { from[j] } else { to[j] };
                let saved = cell2.env.clone();
                cell2.env.truncate(0);
                let i = cell2.add_designed_obstacle(rng, &cand, j + rng.clone().usize(6 - j), -0.02);
                let designed = cell2.env[i].clone();
                cell2.env = saved;
                cell2.env[k] = designed;
            }
            robot.body.collision_environment[k] = rs_opw_kinematics::collisions::CollisionBody { mesh: cell2.env[k].0.to_trimesh(), pose: crate::gen::fr_to_iso(&cell2.env[k].1).cast::<f32>() };
        } else {
            cell2.safety = if cell2.safety.special.is_empty() && cell2.safety.to_environment == 0.0 { cell2.random_safety(rng, mode) } else { SafetySpec::touch(mode) };
            if cell2.safety.to_robot_default > 0.02 {
                cell2.safety.to_robot_default = 0.008;
            }
            robot.body.safety = cell2.safety.build();
        }
        if robot.collides(&initial) {
            mon.count("edited_robot_collides_at_the_initial_vector");
        } else {
            mon.count("second_calls_after_an_edit_in_place");
            clause(mon, &robot, &cell2, "after-edit:");
        }
    }
    if idx < 2 {
        mon.sample(json!({"initial": jf(&initial), "from": jf(&from), "to": jf(&to), "candidates": why.iter().map(|(j, n, w)| json!([j, n, w])).collect::<Vec<_>>(), "offered": offered}));
    }
}
