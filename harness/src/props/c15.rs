//! C15 — Jacobian equals the geometric one; velocities/torques are its inverse/transpose.

use crate::gen::*;
use crate::props::stack::*;
use crate::props::{robot_hash, robot_json};
use crate::refmodel::*;
use crate::report::{hash_combine, hash_f64s, jf, Mon};
use crate::rng::Rng;
use crate::spy::Spy;
use crate::{Kind, Prop, Spec, Tier};
use nalgebra::{Matrix6, Vector6};
use rs_opw_kinematics::constraints::Constraints;
use rs_opw_kinematics::jacobian::Jacobian;
use rs_opw_kinematics::kinematics_impl::OPWKinematics;
use serde_json::json;
use std::f64::consts::PI;
use std::sync::Arc;

pub fn prop() -> Prop {
    Prop { id: "C15", spec, run_case, finalize: None }
}

fn spec() -> Spec {
    Spec {
        kinds: vec![Kind { name: "jacobian", quick: 300_000, thorough: 8_000_000, serial: false }, Kind { name: "shared_history", quick: 20_000, thorough: 500_000, serial: false }],
        rule: "each case = non-degenerate 6-DOF robot (64 sign patterns, offsets), bare or in a stack of depth 1..3 from Tool/Base/Frame/Parallelogram, with or without joint limits (a share of the joint vectors sits within the differencing step of a limit) x q x epsilon in {1e-7,1e-6,1e-5}; the Jacobian is reconstructed through torques_from_vector(e_k) and compared column by column with the geometric Jacobian of the reference chain (x base, tool lever arm, coupling matrix for parallelograms); velocities reproduce the twist when cond(J) <= 1e6; torques == J^T F; isometry- and vector-based entry points agree. shared_history: 2-3 robots sharing link lengths (other signs / offsets / c4) evaluated at the bit-identical joint vector, step and stack in the order A,B,(C,)A,B,.. on one thread, each judged by its own geometric Jacobian. non-trivial = cond(J) <= 1e6; distinct = hash(robot, stack, q, eps) Workload additions: joint vectors beyond half a turn and with joints resting at exact zeros; isometries handed over with the negated quaternion; kind shared_history (as in the rule). Rounds 7-9: linearity for twists 1e-6..1e-9 times slower; scaled robots and far-away bases. Round 10: wrenches with exact-zero / whole-number components of either sign.",
        assumptions: vec![
            "|J - J_geo| <= 5*eps*(1+reach) + 4e-15*(1+reach)/eps (forward-difference truncation + rounding)",
            "J*qdot == x within cond(J)*1e-10*(1+|x|) when cond(J) <= 1e6 (SVD computed in the harness)",
        ],
        minimums: vec![("oracle_evals", 8_000_000, 200_000_000), ("well_conditioned", 250_000, 6_000_000), ("near_limit_cases", 80_000, 2_000_000), ("history.steps", 80_000, 2_000_000), ("structured_wrenches", 250_000, 6_000_000)],
    }
}

fn run_case(kind: &str, idx: u64, rng: &mut Rng, mon: &mut Mon, _tier: Tier) {
    let robot = gen_robot(rng, idx, RobotMode::NonDegenerate, 0.0);
    let rp = robot.rp;
    let depth = rng.usize(4);
    let layers = gen_stack(rng, depth, false, &["Tool", "Base", "Frame", "Parallelogram"]);
    let eps = *rng.pick(&[1e-7, 1e-6, 1e-5]);
    // (a fifth of the joint vectors reaches beyond half a turn: couplings with non-integer scaling are not 2*pi-periodic in the driven joint)
    let q = match rng.usize(10) { 0 | 1 => joints_resting(rng, PI), 2 | 3 => joints_uniform(rng, 2.0 * PI), _ => joints_uniform(rng, PI) };
    if kind == "shared_history" {
        // History workload: robots sharing their link lengths (differing in signs / offsets / c4) are
        // evaluated at the bit-identical joint vector, step and stack one after the other on the same
        // thread (A, B, A, ...); each Jacobian is judged by that robot's own geometric Jacobian.
        let mut robots = vec![robot];
        for _ in 0..(1 + rng.usize(2)) {
            let mut r = robot;
            match rng.usize(3) {
                0 => {
                    let j = rng.usize(6);
                    r.rp.signs[j] = -r.rp.signs[j];
                }
                1 => r.rp.offsets[rng.usize(6)] += *rng.pick(&[PI / 2.0, -PI / 2.0, 0.3, PI]),
                _ => r.rp.c4 += rng.range(0.01, 0.1),
            }
            r.sign_pattern = 64;
            robots.push(r);
        }
        let cons = if rng.bool(0.5) { None } else { Some(Constraints::new([-3.3; 6], [3.3; 6], 0.0)) };
        let n = robots.len();
        for step in 0..(2 * n + 1) {
            mon.count("history.steps");
            evaluate(idx + 2, &robots[step % n], &layers, &q, eps, if cons.is_some() { 1 } else { 0 }, cons, rng, mon);
        }
        return;
    }
    // limits: none / wide / a joint sitting within the differencing step of a limit
    let lim_mode = rng.usize(3);
    let cons = if lim_mode == 0 {
        None
    } else {
        let mut from = [-3.3; 6];
        let mut to = [3.3; 6];
        if lim_mode == 2 {
            mon.count("near_limit_cases");
            // in the wrapped robot's coordinates
            let inner = ref_inner_joints(&layers, &q);
            for _ in 0..(1 + rng.usize(2)) {
                let j = rng.usize(6);
                if rng.bool(0.5) {
                    to[j] = inner[j] + eps * rng.range(0.05, 0.9);
                } else {
                    from[j] = inner[j] - eps * rng.range(0.05, 0.9);
                }
            }
        }
        Some(Constraints::new(from, to, 0.0))
    };
    let _ = rp;
    evaluate(idx, &robot, &layers, &q, eps, lim_mode, cons, rng, mon);
}

#[allow(clippy::too_many_arguments)]
fn evaluate(idx: u64, robot: &Robot, layers: &Vec<Layer>, q: &[f64; 6], eps: f64, lim_mode: usize, cons: Option<Constraints>, rng: &mut Rng, mon: &mut Mon) {
    let robot = *robot;
    let rp = robot.rp;
    let q = *q;
    let depth = layers.len();
    let sname = stack_name(layers);
    let bare: Arc<dyn rs_opw_kinematics::kinematic_traits::Kinematics> = match cons {
        None => Arc::new(OPWKinematics::new(to_params(&rp))),
        Some(c) => Arc::new(OPWKinematics::new_with_constraints(to_params(&rp), c)),
    };
    let mut spy = Spy::new(build(bare, layers));
    spy.record = false;
    let jac = Jacobian::new(&spy, &q, eps);
    // reconstruct J: torques_from_vector(e_k) = J^T e_k = row k
    let mut j = [[0.0; 6]; 6];
    for k in 0..6 {
        let mut e = Vector6::zeros();
        e[k] = 1.0;
        let row = jac.torques_from_vector(&e);
        j[k] = row;
    }
    // geometric Jacobian of the stack
    let mut left = Fr::id();
    let mut right = Fr::id();
    for l in layers.iter() {
        match l {
            Layer::Tool(x) | Layer::Frame(x) => right = right.mul(x),
            Layer::Base(x) => left = x.mul(&left),
            _ => {}
        }
    }
    let q_inner = ref_inner_joints(layers, &q);
    let jg_inner = geometric_jacobian(&rp, &q_inner, &left, &right);
    // coupling matrix d q_inner / d q: product over parallelograms from the outermost inwards
    let mut c = [[0.0; 6]; 6];
    for i in 0..6 {
        c[i][i] = 1.0;
    }
    for l in layers.iter().rev() {
        if let Layer::Para { driven, coupled, scaling } = l {
            let mut m = [[0.0; 6]; 6];
            for i in 0..6 {
                m[i][i] = 1.0;
            }
            m[*coupled][*driven] = -scaling;
            let mut n = [[0.0; 6]; 6];
            for a in 0..6 {
                for b in 0..6 {
                    n[a][b] = (0..6).map(|k| m[a][k] * c[k][b]).sum();
                }
            }
            c = n;
        }
    }
    let mut jg = [[0.0; 6]; 6];
    for a in 0..6 {
        for b in 0..6 {
            jg[a][b] = (0..6).map(|k| jg_inner[a][k] * c[k][b]).sum();
        }
    }
    let reach = rp.reach() + norm(right.p) + norm(left.p);
    // couplings amplify second derivatives by up to (1+|s|)^2 per parallelogram
    let amp: f64 = layers.iter().map(|l| if let Layer::Para { scaling, .. } = l { (1.0 + scaling.abs()).powi(2) } else { 1.0 }).product();
    let tol = (5.0 * eps * (1.0 + reach) + 4e-15 * (1.0 + reach) / eps) * amp;
    let detail = |what: &str, extra: serde_json::Value| json!({"robot": robot_json(&robot), "stack": stack_json(layers), "q": jf(&q), "epsilon": eps, "limits": cons.map(|c| json!({"from": jf(&c.from), "to": jf(&c.to)})), "clause": what, "extra": extra});
    let mut worst = 0.0f64;
    let mut worst_at = (0, 0);
    for a in 0..6 {
        for b in 0..6 {
            let d = (j[a][b] - jg[a][b]).abs();
            if d > worst || !d.is_finite() {
                worst = if d.is_finite() { d } else { f64::INFINITY };
                worst_at = (a, b);
            }
        }
    }
    mon.max(&format!("jacobian_err_over_tol"), worst / tol);
    mon.count(&format!("stack_depth.{}", depth));
    mon.count(&format!("eps.{:e}", eps));
    let kind_sig = format!("{}{}", if layers.is_empty() { "bare" } else { layers.last().unwrap().name() }, if lim_mode == 2 { ":near-limit" } else { "" });
    if !(worst <= tol) {
        mon.violation(&format!("jacobian-vs-geometric:{}:col{}", kind_sig, worst_at.1 + 1), "numeric Jacobian differs from the geometric Jacobian of the reference chain", detail("geometric", json!({"row": worst_at.0, "col": worst_at.1, "J": j[worst_at.0][worst_at.1], "J_geo": jg[worst_at.0][worst_at.1], "tolerance": tol, "stack_name": sname})));
    } else {
        mon.held_n(36);
    }
    // conditioning (harness-side SVD on the reconstructed matrix)
    let m = Matrix6::from_fn(|a, b| j[a][b]);
    let sv = m.svd(false, false).singular_values;
    let smax = sv.iter().cloned().fold(0.0, f64::max);
    let smin = sv.iter().cloned().fold(f64::INFINITY, f64::min);
    let cond = if smin > 0.0 { smax / smin } else { f64::INFINITY };
    // torques == J^T F
    let f = Vector6::from_fn(|i, _| rng.range(-10.0, 10.0));
    // (besides the random wrench: structured wrenches whose components are exact zeros of either sign, whole numbers of
    // either sign or single random values - a pure moment about a negative axis, a force with a one-axis moment, ...)
    let structured = Vector6::from_fn(|_, _| match rng.usize(6) { 0 | 1 => 0.0, 2 => -0.0, 3 => -(rng.int(1, 3) as f64), 4 => rng.int(1, 3) as f64, _ => rng.range(-10.0, 10.0) });
    for (wi, w) in [f, structured].iter().enumerate() {
        let t = jac.torques_from_vector(w);
        let mut t_ok = true;
        for i in 0..6 {
            let want: f64 = (0..6).map(|k| j[k][i] * w[k]).sum();
            if !((t[i] - want).abs() <= 1e-11 * (1.0 + want.abs() + smax * 10.0)) {
                t_ok = false;
            }
        }
        if wi == 1 {
            mon.count("structured_wrenches");
        }
        if !t_ok {
            mon.violation(if wi == 0 { "torques-not-transpose" } else { "torques-not-transpose:structured-wrench" }, "torques_from_vector is not J^T F", detail("torques", json!({"F": jf(w.as_slice()), "torques": jf(&t)})));
        } else {
            mon.held();
        }
    }
    // isometry entry points agree with the vector ones
    let ax = [rng.range(-1.0, 1.0), rng.range(-1.0, 1.0), rng.range(-1.0, 1.0)];
    let iso = nalgebra::Isometry3::new(nalgebra::Vector3::new(f[0], f[1], f[2]), nalgebra::Vector3::new(ax[0], ax[1], ax[2]));
    let sa = iso.rotation.scaled_axis();
    // the same rotation handed over with the negated quaternion (products of rotations across hemispheres
    // produce it); the rotation vector it encodes is still `sa`
    let negate = rng.bool(0.3);
    let flip = |i: nalgebra::Isometry3<f64>| if negate { nalgebra::Isometry3::from_parts(i.translation, nalgebra::Unit::new_unchecked(-i.rotation.into_inner())) } else { i };
    let iso = flip(iso);
    if negate {
        mon.count("isometries_with_negated_quaternion");
    }
    let v6 = Vector6::new(f[0], f[1], f[2], sa.x, sa.y, sa.z);
    let t_iso = jac.torques(&iso);
    let t_vec = jac.torques_from_vector(&v6);
    if (0..6).any(|i| (t_iso[i] - t_vec[i]).abs() > 1e-11 * (1.0 + t_vec[i].abs())) {
        mon.violation("torques-iso-vs-vector", "torques(isometry) disagrees with torques_from_vector", detail("torques-iso", json!({"iso": jf(&t_iso), "vec": jf(&t_vec)})));
    } else {
        mon.held();
    }
    if cond <= 1e6 {
        mon.count("well_conditioned");
        mon.nontrivial(hash_combine(hash_combine(robot_hash(&robot), hash_f64s(&q)), crate::rng::hash_str(&sname) ^ eps.to_bits()));
        let x = Vector6::from_fn(|i, _| rng.range(-1.0, 1.0));
        match jac.velocities_from_vector(&x) {
            Ok(qd) => {
                let mut ok = true;
                let mut worst = 0.0f64;
                for a in 0..6 {
                    let got: f64 = (0..6).map(|b| j[a][b] * qd[b]).sum();
                    worst = worst.max((got - x[a]).abs());
                    if (got - x[a]).abs() > cond * 1e-10 * (1.0 + x.norm()) {
                        ok = false;
                    }
                }
                if !ok {
                    mon.violation("velocities-do-not-reproduce-twist", "J * velocities_from_vector(x) differs from x on a well conditioned Jacobian", detail("velocities", json!({"x": jf(x.as_slice()), "qdot": jf(&qd), "cond": cond, "worst": worst})));
                } else {
                    mon.held();
                }
                // the map twist -> joint velocities is linear: a twist a million .. a billion times slower gives joint
                // velocities slower by the same factor (relative check: an absolute one cannot see a dead band)
                {
                    let k = *rng.pick(&[1e-6, 1e-8, 1e-9]);
                    let xs = x * k;
                    match jac.velocities_from_vector(&xs) {
                        Ok(qs) => {
                            let scale = qd.iter().fold(0.0f64, |a, b| a.max(b.abs()));
                            let worst_rel = (0..6).map(|i| (qs[i] - qd[i] * k).abs()).fold(0.0f64, f64::max) / (scale * k).max(1e-300);
                            mon.count("slow_twists_checked");
                            if !(worst_rel <= 1e-6 * cond.max(1.0)) && scale > 1e-6 {
                                mon.violation("velocities-not-linear-for-slow-twists", "joint velocities for a slow twist are not the scaled joint velocities of the fast one", detail("velocities-linear", json!({"factor": k, "x": jf(x.as_slice()), "qdot": jf(&qd), "qdot_slow": jf(&qs), "relative_error": worst_rel})));
                            } else {
                                mon.held();
                            }
                        }
                        Err(e) => mon.violation("velocities-error-on-regular-jacobian", "velocities_from_vector failed for a slow twist on a well conditioned Jacobian", detail("velocities-linear", json!({"error": e}))),
                    }
                }
                // velocities(iso) and velocities_fixed agree with the vector form
                let xi = Vector6::new(x[0], x[1], x[2], sa.x, sa.y, sa.z);
                let iso2 = flip(nalgebra::Isometry3::new(nalgebra::Vector3::new(x[0], x[1], x[2]), nalgebra::Vector3::new(ax[0], ax[1], ax[2])));
                let a = jac.velocities(&iso2);
                let b = jac.velocities_from_vector(&xi);
                let fx = jac.velocities_fixed(x[0], x[1], x[2]);
                let fv = jac.velocities_from_vector(&Vector6::new(x[0], x[1], x[2], 0.0, 0.0, 0.0));
                let same = |p: &Result<[f64; 6], &'static str>, q: &Result<[f64; 6], &'static str>| match (p, q) {
                    (Ok(p), Ok(q)) => (0..6).all(|i| (p[i] - q[i]).abs() <= 1e-9 * (1.0 + q[i].abs()) * cond.max(1.0) * 1e-3 + 1e-12),
                    (Err(_), Err(_)) => true,
                    _ => false,
                };
                if !same(&a, &b) {
                    mon.violation("velocities-iso-vs-vector", "velocities(isometry) disagrees with velocities_from_vector", detail("velocities-iso", json!({})));
                } else if !same(&fx, &fv) {
                    mon.violation("velocities-fixed-vs-vector", "velocities_fixed disagrees with velocities_from_vector([v;0])", detail("velocities-fixed", json!({})));
                } else {
                    mon.held();
                }
            }
            Err(e) => mon.violation("velocities-error-on-regular-jacobian", "velocities_from_vector failed on a well conditioned Jacobian", detail("velocities", json!({"error": e, "cond": cond}))),
        }
    } else {
        mon.inconclusive("velocities:ill-conditioned");
    }
    if idx < 2 {
        mon.sample(json!({"robot": robot_json(&robot), "stack": sname, "q": jf(&q), "epsilon": eps, "cond": cond, "max_abs_diff_to_geometric": worst}));
    }
}
