//! C16 — parallelogram coupling is applied consistently in forward and inverse kinematics.

use crate::gen::*;
use crate::props::ik::*;
use crate::props::stack::*;
use crate::props::{robot_hash, robot_json};
use crate::refmodel::*;
use crate::report::{hash_combine, hash_f64s, jf, Mon};
use crate::rng::Rng;
use crate::spy::{Method, Spy};
use crate::{Kind, Prop, Spec, Tier};
use rs_opw_kinematics::kinematic_traits::Kinematics;
use rs_opw_kinematics::kinematics_impl::OPWKinematics;
use serde_json::json;
use std::f64::consts::PI;
use std::sync::Arc;

pub fn prop() -> Prop {
    Prop { id: "C16", spec, run_case, finalize: None }
}

fn spec() -> Spec {
    Spec {
        kinds: vec![
            Kind { name: "value", quick: 400_000, thorough: 10_000_000, serial: false },
            Kind { name: "delegation", quick: 100_000, thorough: 2_000_000, serial: false },
        ],
        rule: "value: non-degenerate robot x stack of depth 1..3 containing at least one Parallelogram (all 30 driven!=coupled pairs round-robin, scalings in [-2,2] incl. 0, +-1, chained couplings where one coupling's coupled joint is another's driven joint) nested with Tool/Base in any order x q: wrapper forward and link poses == reference chain at the joint vector with coupled -= scaling*driven applied sequentially; every answer of the four inverse entry points maps back through the reference forward onto the request (tool point for the 5-DOF variants with axial tools). delegation: Parallelogram over a SpyKinematics: one inner call of the same method, adjusted joints, pose/previous/J6 unchanged. non-trivial = scaling != 0; distinct = hash(robot, stack, q) Workload additions: joints resting at exactly 0.0 / -0.0; postures next to / inside the wrist band (nine answers); previous = generating, generating + 1e-8..1e-4 noise, near, sentinel; solvers built through either constructor. Rounds 7-9: a coupled joint a hair inside +-pi with the previous value across the seam; joint vectors beyond half a turn.",
        assumptions: vec!["forward tolerance 1e-11*(1+reach); inverse accuracy 1e-6 m / 1e-6 rad + 1e-9"],
        minimums: vec![("oracle_evals", 5_000_000, 120_000_000), ("stacked_couplings", 100_000, 2_500_000), ("set:pairs", 30, 30)],
    }
}

fn run_case(kind: &str, idx: u64, rng: &mut Rng, mon: &mut Mon, _tier: Tier) {
    if kind == "value" {
        value(idx, rng, mon)
    } else {
        delegation(idx, rng, mon)
    }
}

fn pair(k: u64) -> (usize, usize) {
    let k = (k % 30) as usize;
    let driven = k / 5;
    let mut coupled = k % 5;
    if coupled >= driven {
        coupled += 1;
    }
    (driven, coupled)
}

fn scaling(rng: &mut Rng) -> f64 {
    match rng.usize(6) {
        0 => 1.0,
        1 => -1.0,
        2 => 0.0,
        3 => 0.5,
        _ => rng.range(-2.0, 2.0),
    }
}

fn value(idx: u64, rng: &mut Rng, mon: &mut Mon) {
    let robot = gen_robot(rng, idx, RobotMode::NonDegenerate, 0.15);
    let rp = robot.rp;
    let (driven, coupled) = pair(idx);
    let axial = rng.bool(0.5);
    let first = Layer::Para { driven, coupled, scaling: scaling(rng) };
    let mut layers: Vec<Layer> = vec![];
    let shape = rng.usize(8);
    match shape {
        0 => layers.push(first),
        1 => {
            // chained coupling: outer coupled joint is the inner driven joint
            let mut other = rng.usize(6);
            while other == driven || other == coupled {
                other = rng.usize(6);
            }
            layers.push(Layer::Para { driven: coupled, coupled: other, scaling: scaling(rng) });
            layers.push(first);
        }
        2 => {
            layers.push(first);
            layers.extend(gen_stack(rng, 1, axial, &["Parallelogram"]));
        }
        3 => {
            layers.extend(gen_stack(rng, 1, axial, &["Tool", "Base"]));
            layers.push(first);
        }
        4 => {
            layers.push(first);
            layers.extend(gen_stack(rng, 1, axial, &["Tool", "Base"]));
        }
        5 => {
            layers.extend(gen_stack(rng, 1, axial, &["Tool", "Base"]));
            layers.push(first);
            layers.extend(gen_stack(rng, 1, axial, &["Tool", "Base", "Parallelogram"]));
        }
        6 => {
            layers.push(first);
            layers.extend(gen_stack(rng, 2, axial, &["Tool", "Base", "Parallelogram"]));
        }
        _ => {
            layers.extend(gen_stack(rng, 2, axial, &["Tool", "Base", "Parallelogram"]));
            layers.push(first);
        }
    }
    let n_para = layers.iter().filter(|l| matches!(l, Layer::Para { .. })).count();
    if n_para >= 2 {
        mon.count("stacked_couplings");
    }
    mon.seen("pairs", format!("{}->{}", driven, coupled));
    let sname = stack_name(&layers);
    let kin = build(Arc::new(make_solver(rng, &rp)), &layers);
    // (a tenth of the joint vectors reaches beyond half a turn: a non-integer coupling is not periodic in the driven joint)
    let mut q = match rng.usize(10) { 0..=2 => joints_resting(rng, PI), 3 => joints_uniform(rng, 2.0 * PI), _ => joints_uniform(rng, PI) };
    // a tenth of the postures has the inner robot's model J5 inside or next to the solver's 0.01 degree wrist
    // band (1e-6 .. 3e-4 rad, not exactly singular): the continuation solver may then append a ninth answer
    if rng.bool(0.1) && rp.signs[4] != 0 {
        let inner = ref_inner_joints(&layers, &q);
        let mut want = inner;
        place_t5(&rp, &mut want, 0, rng.sign() * rng.logu(1e-6, 3e-4));
        q[4] += want[4] - inner[4];
        mon.count("postures_next_to_the_wrist_band");
    }
    // one posture in twenty has a coupled joint a hair inside +-pi (1e-6 .. 1.5e-4 rad); the previous value of that
    // joint is then given on the other side of the seam
    let seam_joint: Option<usize> = if rng.usize(20) == 0 { layers.iter().find_map(|l| if let Layer::Para { coupled, .. } = l { Some(*coupled) } else { None }) } else { None };
    if let Some(c) = seam_joint {
        q[c] = rng.sign() * (PI - rng.logu(1e-6, 1.5e-4));
        mon.count("postures_with_a_coupled_joint_next_to_the_seam");
    }
    let q = q;
    let reach = rp.reach() + layers.iter().map(|l| match l { Layer::Tool(f) | Layer::Base(f) | Layer::Frame(f) => norm(f.p), _ => 0.0 }).sum::<f64>();
    let ftol = 1e-11 * (1.0 + reach);
    let target = ref_forward(&rp, &layers, &q);
    let detail = |what: &str, extra: serde_json::Value| json!({"robot": robot_json(&robot), "stack": stack_json(&layers), "q": jf(&q), "clause": what, "extra": extra});
    let sig_stack = format!("{}paras:{}", n_para, if layers.iter().any(|l| matches!(l, Layer::Tool(_))) { "with-tool" } else if layers.iter().any(|l| matches!(l, Layer::Base(_))) { "with-base" } else { "only-paras" });
    mon.count(&format!("value.shape.{}", sname));
    if layers.iter().any(|l| matches!(l, Layer::Para { scaling, .. } if *scaling != 0.0)) {
        mon.nontrivial(hash_combine(hash_combine(robot_hash(&robot), hash_f64s(&q)), crate::rng::hash_str(&sname) ^ hash_f64s(&target.p)));
    }
    // forward
    let f = iso_to_fr(&kin.forward(&q));
    let (dp, dr) = (pos_dist(&f, &target), rot_angle(&f.r, &target.r));
    if !(dp <= ftol && dr <= 1e-11) {
        mon.violation(&format!("forward-coupling:{}", sig_stack), "wrapper forward differs from the inner robot at the coupled joint vector", detail("forward", json!({"dp": dp, "dr": dr})));
    } else {
        mon.held();
    }
    let links = kin.forward_with_joint_poses(&q);
    let rl = ref_links(&rp, &layers, &q);
    let mut links_ok = true;
    for i in 0..6 {
        let l = iso_to_fr(&links[i]);
        if !(pos_dist(&l, &rl[i]) <= ftol && rot_angle(&l.r, &rl[i].r) <= 1e-11) {
            links_ok = false;
            mon.violation(&format!("links-coupling:{}", sig_stack), "wrapper link poses differ from the inner robot at the coupled joint vector", detail("links", json!({"link": i + 1})));
            break;
        }
    }
    if links_ok {
        mon.held();
    }
    // inverse entry points map back
    let pose = fr_to_iso(&target);
    let j6 = *rng.pick(&[0.0, 1.0, q[5]]);
    // previous: near the generating vector (+-0.5), exactly it, it plus rounding-sized noise (1e-8 .. 1e-4 rad
    // per joint, as when each step's answer is fed back on a slow trajectory), or the sentinel
    let mut prev = q;
    let prev_class = rng.usize(20);
    for j in 0..6 {
        match prev_class {
            0..=7 => prev[j] += rng.range(-0.5, 0.5),
            8..=11 => {}
            12..=16 => prev[j] += rng.sign() * rng.logu(1e-8, 1e-4),
            _ => prev = rs_opw_kinematics::kinematic_traits::CONSTRAINT_CENTERED,
        }
    }
    if let Some(c) = seam_joint {
        if !prev[0].is_nan() {
            prev[c] = -q[c].signum() * (PI - rng.range(0.0, 0.3));
        }
    }
    mon.count(&format!("value.prev.{}", match prev_class { 0..=7 => "near", 8..=11 => "generating", 12..=16 => "generating_plus_tiny_noise", _ => "sentinel" }));
    let has_tool = layers.iter().any(|l| matches!(l, Layer::Tool(_)));
    for e in ENTRIES {
        if (e.is_5dof() || rp.dof == 5) && has_tool && !axial {
            continue;
        }
        let sols = match call(kin.as_ref(), e, &pose, &prev, j6) {
            Ok(s) => s,
            Err(m) => {
                mon.violation(&format!("panic:{}", e.name()), "wrapper entry point panicked", detail("no-panic", json!({"panic": m})));
                continue;
            }
        };
        mon.count(&format!("value.entry.{}", e.name()));
        let point_only = e.is_5dof() || rp.dof == 5;
        for s in &sols {
            let got = ref_forward(&rp, &layers, s);
            let dp = pos_dist(&got, &target);
            let dr = if point_only { 0.0 } else { rot_angle(&got.r, &target.r) };
            let lever: f64 = layers.iter().map(|l| match l { Layer::Tool(f) | Layer::Frame(f) => norm(f.p), _ => 0.0 }).sum();
            if !(dp <= 1e-6 * (1.0 + lever) + 1e-9 + 1e-12 * reach && dr <= 1e-6 + 1e-9) {
                mon.violation(&format!("inverse-does-not-map-back:{}:{}", sig_stack, e.name()), "an inverse answer does not map back through the wrapper's forward onto the request", detail("map-back", json!({"entry": e.name(), "previous": jf(&prev), "solution": jf(s), "dp": dp, "dr": dr, "answers": sols.len()})));
            } else {
                mon.held();
            }
        }
    }
    if idx < 2 {
        mon.sample(json!({"kind": "value", "robot": robot_json(&robot), "stack": stack_json(&layers), "q": jf(&q)}));
    }
}

fn bits_eq(a: &[f64; 6], b: &[f64; 6]) -> bool {
    (0..6).all(|j| a[j].to_bits() == b[j].to_bits())
}

fn delegation(idx: u64, rng: &mut Rng, mon: &mut Mon) {
    let robot = gen_robot(rng, idx, RobotMode::NonDegenerate, 0.0);
    let rp = robot.rp;
    let (driven, coupled) = pair(idx);
    let sc = scaling(rng);
    let layer = Layer::Para { driven, coupled, scaling: sc };
    let real: Arc<dyn Kinematics> = Arc::new(OPWKinematics::new_with_constraints(to_params(&rp), rs_opw_kinematics::constraints::Constraints::new([-3.0; 6], [3.0; 6], 0.0)));
    let spy = Arc::new(Spy::new(real.clone()));
    let kin = crate::props::stack::wrap(spy.clone(), &layer);
    let q = if rng.bool(0.3) { joints_resting(rng, PI) } else { joints_uniform(rng, PI) };
    let mut q_adj = q;
    q_adj[coupled] -= sc * q[driven];
    let pose = fr_to_iso(&fk(&rp, &q_adj));
    let prev = joints_uniform(rng, 2.0 * PI);
    let j6 = rng.range(-5.0, 5.0);
    for m in crate::spy::ALL_METHODS {
        spy.clear();
        let detail = |what: &str, extra: serde_json::Value| json!({"robot": robot_json(&robot), "coupling": layer.json(), "method": m.name(), "q": jf(&q), "clause": what, "extra": extra});
        let outer: Option<Vec<[f64; 6]>> = match m {
            Method::Inverse => Some(kin.inverse(&pose)),
            Method::Continuing => Some(kin.inverse_continuing(&pose, &prev)),
            Method::FiveDof => Some(kin.inverse_5dof(&pose, j6)),
            Method::Continuing5 => Some(kin.inverse_continuing_5dof(&pose, &prev)),
            Method::Forward => {
                kin.forward(&q);
                None
            }
            Method::Links => {
                kin.forward_with_joint_poses(&q);
                None
            }
            Method::Singularity => {
                kin.kinematic_singularity(&q);
                None
            }
            Method::Constraints => {
                kin.constraints();
                None
            }
        };
        let ev = spy.take();
        mon.count("delegation.matrix_cells");
        if ev.len() != 1 || ev[0].method != m {
            mon.violation(&format!("delegation:wrong-inner-call:{}", m.name()), "Parallelogram did not make exactly one inner call of the same method", detail("one-same-call", json!({"inner_calls": ev.iter().map(|e| e.method.name()).collect::<Vec<_>>()})));
            continue;
        }
        let e = &ev[0];
        let mut ok = true;
        if let Some(p) = &e.pose {
            if p != &pose {
                ok = false;
                mon.violation(&format!("delegation:pose-argument:{}", m.name()), "Parallelogram changed the requested pose", detail("pose-arg", json!({})));
            }
        }
        match m {
            Method::Continuing | Method::Continuing5 => {
                if !bits_eq(&e.joints.unwrap(), &prev) {
                    ok = false;
                    mon.violation(&format!("delegation:previous-argument:{}", m.name()), "previous joints were not passed unchanged", detail("prev-arg", json!({"passed": jf(&e.joints.unwrap())})));
                }
            }
            Method::FiveDof => {
                if e.j6.unwrap().to_bits() != j6.to_bits() {
                    ok = false;
                    mon.violation("delegation:j6-argument", "J6 was not passed unchanged", detail("j6-arg", json!({})));
                }
            }
            Method::Forward | Method::Links => {
                let got = e.joints.unwrap();
                if !(0..6).all(|j| (got[j] - q_adj[j]).abs() <= 1e-14) {
                    ok = false;
                    mon.violation(&format!("delegation:joints-argument:{}", m.name()), "inner joints are not q with coupled -= scaling*driven", detail("joints-arg", json!({"passed": jf(&got), "expected": jf(&q_adj)})));
                }
            }
            _ => {}
        }
        if let Some(o) = outer {
            let direct = match m {
                Method::Inverse => real.inverse(&pose),
                Method::Continuing => real.inverse_continuing(&pose, &prev),
                Method::FiveDof => real.inverse_5dof(&pose, j6),
                _ => real.inverse_continuing_5dof(&pose, &prev),
            };
            let good = o.len() == direct.len()
                && o.iter().zip(direct.iter()).all(|(a, b)| {
                    (0..6).all(|j| {
                        let want = if j == coupled { b[j] + sc * b[driven] } else { b[j] };
                        (a[j] - want).abs() <= 1e-13
                    })
                });
            if !good {
                ok = false;
                mon.violation(&format!("delegation:answers-not-coupled:{}", m.name()), "answers are not the inner answers with coupled += scaling*driven", detail("answers", json!({"outer": o.iter().map(|s| jf(s)).collect::<Vec<_>>(), "inner": direct.iter().map(|s| jf(s)).collect::<Vec<_>>()})));
            }
        }
        if ok {
            mon.held();
            mon.nontrivial(hash_combine(hash_combine(robot_hash(&robot), hash_f64s(&q)), (m as u64 + 1) ^ sc.to_bits()));
        }
    }
    if idx < 1 {
        mon.sample(json!({"kind": "delegation", "coupling": layer.json()}));
    }
}
