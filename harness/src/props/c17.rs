//! C17 — a frame from three point pairs is the rigid motion mapping them.

use crate::gen::*;
use crate::props::{robot_hash, robot_json};
use crate::refmodel::*;
use crate::report::{guarded, hash_combine, hash_f64s, jf, Mon};
use crate::rng::Rng;
use crate::{Kind, Prop, Spec, Tier};
use nalgebra::Point3;
use rs_opw_kinematics::frame::{ColinearPoints, Frame, NotIsometry};
use rs_opw_kinematics::kinematics_impl::OPWKinematics;
use serde_json::json;
use std::f64::consts::PI;
use std::sync::Arc;

pub fn prop() -> Prop {
    Prop { id: "C17", spec, run_case, finalize: None }
}

fn spec() -> Spec {
    Spec {
        kinds: vec![
            Kind { name: "rigid", quick: 600_000, thorough: 15_000_000, serial: false },
            Kind { name: "collinear", quick: 200_000, thorough: 5_000_000, serial: false },
            Kind { name: "congruence", quick: 200_000, thorough: 5_000_000, serial: false },
            Kind { name: "forward_transformed", quick: 150_000, thorough: 4_000_000, serial: false },
        ],
        rule: "rigid: random triangles (side 1e-2..1e2 m, angle at p1 with sin >= 1e-6, up to 1e3 m from the origin) x random rigid motions incl. rotations next to 180 degrees: result Ok, proper, maps p_i to q_i, equals the generating motion. collinear: p3 = p1 + t*(p2-p1) evaluated in floating point and exactly representable integer cases, sources and targets: Err(ColinearPoints) with the right flag. congruence: one pairwise distance changed by >= 5 mm + 1e-9 => Err(NotIsometry), by <= 5 mm - 1e-9 => Ok and still a proper rigid map with p1 -> q1. forward_transformed: pose == frame*FK(q), every solution realises it, list ordered by closeness to previous. Frame::translation: pure shift q-p. non-trivial = rotation angle > 1e-3 (rigid) / conclusive rejection; distinct = hash(points) Workload additions: coincident source / target points; forward_transformed with the CONSTRAINT_CENTERED sentinel as previous. Rounds 7-9: a Frame around a Frame; answers compared with what the wrapped robot finds for the reference moved pose; exactly-identity frames; a wrist-singular pose with previous != qs; target points listed in another order. Round 10: forward_transformed history - the bit-identical joint vector through the same frame on robot after robot, each robot and Frame built, asked and dropped in turn.",
        assumptions: vec![
            "sin(angle at p1) between 1e-12 and 1e-6: either outcome accepted, but an Ok result must be a proper rotation mapping p1 to q1",
            "mapping tolerance 1e-9*scale/sin(angle) + 1e-12*|offset|",
        ],
        minimums: vec![("oracle_evals", 1_000_000, 25_000_000), ("collinear.expected_rejections", 100_000, 2_500_000), ("congruence.above", 50_000, 1_000_000), ("congruence.below", 50_000, 1_000_000), ("forward_transformed.history_steps", 30_000, 800_000)],
    }
}

fn run_case(kind: &str, idx: u64, rng: &mut Rng, mon: &mut Mon, _tier: Tier) {
    match kind {
        "rigid" => rigid(idx, rng, mon),
        "collinear" => collinear(idx, rng, mon),
        "congruence" => congruence(idx, rng, mon),
        _ => forward_transformed(idx, rng, mon),
    }
}

fn pt(v: V3) -> Point3<f64> {
    Point3::new(v[0], v[1], v[2])
}

fn unit(rng: &mut Rng) -> V3 {
    loop {
        let v = [rng.normal(), rng.normal(), rng.normal()];
        let n = norm(v);
        if n > 1e-3 {
            return scale(v, 1.0 / n);
        }
    }
}

/// triangle with given side scale and sine of the angle at p1
fn triangle(rng: &mut Rng, sin_a: f64) -> (V3, V3, V3, f64) {
    let s = rng.logu(1e-2, 1e2);
    let off_scale = *rng.pick(&[0.0, 1.0, 10.0, 1e3]);
    let p1 = [rng.range(-1.0, 1.0) * off_scale, rng.range(-1.0, 1.0) * off_scale, rng.range(-1.0, 1.0) * off_scale];
    let u = unit(rng);
    // v perpendicular to u
    let mut w = unit(rng);
    let d = dot(w, u);
    w = sub(w, scale(u, d));
    let wn = norm(w);
    let w = scale(w, 1.0 / wn);
    let l2 = s * rng.range(0.3, 1.0);
    let l3 = s * rng.range(0.3, 1.0);
    let cos_a = (1.0 - sin_a * sin_a).max(0.0).sqrt() * rng.sign();
    let p2 = add(p1, scale(u, l2));
    let p3 = add(p1, add(scale(u, l3 * cos_a), scale(w, l3 * sin_a)));
    (p1, p2, p3, s)
}

fn motion(rng: &mut Rng) -> Fr {
    let r = match rng.usize(4) {
        0 => axis_angle(unit(rng), PI - rng.logu(1e-9, 1e-2)),
        1 => axis_angle(unit(rng), rng.logu(1e-9, 1e-2)),
        _ => random_rotation(rng),
    };
    let ts = *rng.pick(&[0.0, 1.0, 100.0]);
    Fr { r, p: [rng.range(-1.0, 1.0) * ts, rng.range(-1.0, 1.0) * ts, rng.range(-1.0, 1.0) * ts] }
}

fn points_json(p: &[V3; 3], q: &[V3; 3]) -> serde_json::Value {
    json!({"p1": p[0], "p2": p[1], "p3": p[2], "q1": q[0], "q2": q[1], "q3": q[2]})
}

fn check_proper_and_maps(mon: &mut Mon, iso: &Iso, p: &[V3; 3], q: &[V3; 3], tol: [f64; 3], sig: &str, what_detail: serde_json::Value) -> bool {
    let f = iso_to_fr(iso);
    let qn = quat_norm(iso);
    let d = det(&f.r);
    // the cross product of a thin triangle is orthogonal to its sides only up to eps/sin(angle):
    // the unit-norm tolerance follows that conditioning (1e-12 for well shaped triangles)
    let v1 = sub(p[1], p[0]);
    let v2 = sub(p[2], p[0]);
    let sin_p = (norm(cross(v1, v2)) / (norm(v1) * norm(v2))).max(1e-13);
    let w1 = sub(q[1], q[0]);
    let w2 = sub(q[2], q[0]);
    let sin_q = (norm(cross(w1, w2)) / (norm(w1) * norm(w2))).max(1e-13);
    let ntol = 1e-12 + 1e-14 / sin_p.min(sin_q);
    if !((qn - 1.0).abs() <= ntol && (d - 1.0).abs() <= 1e-9) {
        mon.violation(&format!("{}:improper", sig), "frame is not a proper rigid transform", json!({"points": points_json(p, q), "quat_norm": qn, "det": d, "case": what_detail}));
        return false;
    }
    for i in 0..3 {
        let e = norm(sub(f.apply(p[i]), q[i]));
        if !(e <= tol[i]) {
            mon.violation(&format!("{}:does-not-map-point", sig), "frame does not map a source point onto its image", json!({"points": points_json(p, q), "point": i + 1, "error": e, "tolerance": tol[i], "case": what_detail}));
            return false;
        }
    }
    true
}

fn rigid(idx: u64, rng: &mut Rng, mon: &mut Mon) {
    let grey = rng.bool(0.1);
    let sin_a = if grey { rng.logu(1e-12, 1e-6) } else if rng.bool(0.3) { rng.logu(1e-6, 1e-2) } else { rng.range(0.05, 1.0) };
    let (p1, p2, p3, s) = triangle(rng, sin_a);
    let m = motion(rng);
    let p = [p1, p2, p3];
    let q = [m.apply(p1), m.apply(p2), m.apply(p3)];
    // actual sine after rounding
    let v1 = sub(p2, p1);
    let v2 = sub(p3, p1);
    let sin_real = norm(cross(v1, v2)) / (norm(v1) * norm(v2));
    let off = norm(p1) + norm(m.p);
    let res = guarded(|| Frame::frame(pt(p[0]), pt(p[1]), pt(p[2]), pt(q[0]), pt(q[1]), pt(q[2])));
    let res = match res {
        Ok(r) => r,
        Err(msg) => {
            mon.violation("rigid:panic", "Frame::frame panicked", json!({"points": points_json(&p, &q), "panic": msg}));
            return;
        }
    };
    let conclusive = sin_real >= 1e-6;
    mon.count(if conclusive { "rigid.conclusive" } else { "rigid.grey_zone" });
    match res {
        Ok(iso) => {
            let base = 1e-11 * s / sin_real.max(1e-12) + 1e-12 * (1.0 + off);
            // grey zone: only p1 -> q1, within the conditioning of the (non-orthogonal) basis
            let tol = if conclusive { [base, base, base] } else { [1e-9 * (1.0 + off) + norm(p1) * (1e-12 + 1e-14 / sin_real.max(1e-13)), f64::INFINITY, f64::INFINITY] };
            if check_proper_and_maps(mon, &iso, &p, &q, tol, if conclusive { "rigid" } else { "rigid-grey" }, json!({"sin_angle": sin_real})) {
                if conclusive {
                    // equals the generating motion
                    let f = iso_to_fr(&iso);
                    let dr = rot_angle(&f.r, &m.r);
                    if !(dr <= 1e-8 / sin_real.max(1e-12) * 1e-3 + 1e-9 / sin_real) {
                        mon.violation("rigid:not-the-generating-motion", "frame rotation differs from the generating rigid motion", json!({"points": points_json(&p, &q), "dr": dr, "sin_angle": sin_real}));
                    } else {
                        mon.held();
                        let ang = rot_angle(&m.r, &I3);
                        if ang > 1e-3 {
                            mon.nontrivial(hash_f64s(&[p1, p2, p3, q[0]].concat()));
                        }
                        mon.max("rigid.map_error_over_tol", (0..3).map(|i| norm(sub(f.apply(p[i]), q[i]))).fold(0.0, f64::max) / base);
                    }
                } else {
                    mon.held();
                }
            }
        }
        Err(e) => {
            if conclusive {
                mon.violation("rigid:rejected", "exact rigid images of a non-collinear triple were rejected", json!({"points": points_json(&p, &q), "error": e.to_string(), "sin_angle": sin_real}));
            } else {
                mon.held();
            }
        }
    }
    if idx < 2 {
        mon.sample(json!({"kind": "rigid", "points": points_json(&p, &q), "sin_angle": sin_real}));
    }
}

fn collinear(idx: u64, rng: &mut Rng, mon: &mut Mon) {
    let mode = rng.usize(6);
    let (p, q, expect_source): ([V3; 3], [V3; 3], bool) = match mode {
        // floating point collinear sources, rigid images
        0 | 1 => {
            let s = rng.logu(1e-2, 1e2);
            let off_scale = *rng.pick(&[0.0, 1.0, 10.0, 1e3]);
            let p1 = [rng.range(-1.0, 1.0) * off_scale, rng.range(-1.0, 1.0) * off_scale, rng.range(-1.0, 1.0) * off_scale];
            let u = unit(rng);
            let p2 = add(p1, scale(u, s * rng.range(0.3, 1.0)));
            let t = rng.range(-2.0, 3.0);
            let p3 = add(p1, scale(sub(p2, p1), t));
            let m = if mode == 0 { Fr::id() } else { motion(rng) };
            ([p1, p2, p3], [m.apply(p1), m.apply(p2), m.apply(p3)], true)
        }
        // exactly representable integer collinear points, shifted images
        2 => {
            let p1 = [rng.int(-50, 50) as f64, rng.int(-50, 50) as f64, rng.int(-50, 50) as f64];
            let d = [rng.int(-5, 5) as f64, rng.int(-5, 5) as f64, rng.int(1, 5) as f64];
            let p2 = add(p1, d);
            let p3 = add(p1, scale(d, rng.int(2, 6) as f64));
            let sh = [rng.int(-20, 20) as f64, rng.int(-20, 20) as f64, rng.int(-20, 20) as f64];
            ([p1, p2, p3], [add(p1, sh), add(p2, sh), add(p3, sh)], true)
        }
        // coincident source points (p1 == p2, p1 == p3, p2 == p3 or all three): a zero-length edge
        4 => {
            let (a, b, c, _) = triangle(rng, 0.3);
            let p = match rng.usize(4) { 0 => [a, a, c], 1 => [a, b, a], 2 => [a, b, b], _ => [a, a, a] };
            let m = if rng.bool(0.5) { Fr::id() } else { motion(rng) };
            (p, [m.apply(p[0]), m.apply(p[1]), m.apply(p[2])], true)
        }
        // a proper but tiny source triangle (legs below the 5 mm congruence tolerance), two target points coincide
        5 => {
            let a = [rng.range(-1.0, 1.0), rng.range(-1.0, 1.0), rng.range(-1.0, 1.0)];
            let (u, v) = (unit(rng), unit(rng));
            let p = [a, add(a, scale(u, rng.range(5e-4, 2e-3))), add(a, scale(v, rng.range(5e-4, 2e-3)))];
            let sh = [rng.range(-1.0, 1.0), rng.range(-1.0, 1.0), rng.range(-1.0, 1.0)];
            let q = match rng.usize(3) { 0 => [add(p[0], sh), add(p[0], sh), add(p[2], sh)], 1 => [add(p[0], sh), add(p[1], sh), add(p[0], sh)], _ => [add(p[0], sh), add(p[0], sh), add(p[0], sh)] };
            (p, q, false)
        }
        // sources a flat but real triangle (height below the 5 mm congruence tolerance), targets collinear
        _ => {
            let l = rng.range(0.5, 2.0);
            let h = rng.range(2e-4, 3e-3);
            let x3 = rng.range(0.2, 0.8) * l;
            let p = [[0.0, 0.0, 0.0], [l, 0.0, 0.0], [x3, h, 0.0]];
            let sh = [rng.range(-1.0, 1.0), rng.range(-1.0, 1.0), rng.range(-1.0, 1.0)];
            let q = [add(p[0], sh), add(p[1], sh), add([x3, 0.0, 0.0], sh)];
            (p, q, false)
        }
    };
    let res = match guarded(|| Frame::frame(pt(p[0]), pt(p[1]), pt(p[2]), pt(q[0]), pt(q[1]), pt(q[2]))) {
        Ok(r) => r,
        Err(msg) => {
            mon.violation("collinear:panic", "Frame::frame panicked", json!({"points": points_json(&p, &q), "panic": msg}));
            return;
        }
    };
    // the generated floats must really be collinear up to the rounding of the cross product itself;
    // a short side far from the origin is rounded into a thin but real triangle (grey zone: either outcome)
    {
        let sine = |a: &[V3; 3]| {
            let v1 = sub(a[1], a[0]);
            let v2 = sub(a[2], a[0]);
            let d = norm(v1) * norm(v2);
            if d == 0.0 { 0.0 } else { norm(cross(v1, v2)) / d }
        };
        let sp = sine(&p);
        let sq = sine(&q);
        let relevant = if expect_source { sp } else { sq };
        if relevant >= 1e-12 || (!expect_source && sp < 1e-6) {
            mon.inconclusive("collinear:rounded-into-a-thin-triangle");
            return;
        }
    }
    mon.count("collinear.expected_rejections");
    mon.count(&format!("collinear.mode.{}", ["float_identity", "float_moved", "integer_exact", "flat_source_collinear_target", "coincident_sources", "coincident_targets"][mode]));
    let sig_mode = ["float", "float", "integer", "target", "coincident", "coincident-target"][mode];
    match res {
        Ok(_) => mon.violation(&format!("collinear:accepted:{}", sig_mode), "collinear points were accepted as a frame definition", json!({"points": points_json(&p, &q), "expected_source_flag": expect_source})),
        Err(e) => {
            if let Some(c) = e.downcast_ref::<ColinearPoints>() {
                if c.source != expect_source {
                    mon.violation(&format!("collinear:wrong-flag:{}", sig_mode), "ColinearPoints error carries the wrong source/target flag", json!({"points": points_json(&p, &q), "flag": c.source, "expected": expect_source}));
                } else {
                    mon.held();
                    mon.nontrivial(hash_f64s(&[p[0], p[1], p[2], q[2]].concat()));
                }
            } else {
                mon.violation(&format!("collinear:wrong-error:{}", sig_mode), "collinear points were rejected with a different error", json!({"points": points_json(&p, &q), "error": e.to_string()}));
            }
        }
    }
    if idx < 1 {
        mon.sample(json!({"kind": "collinear", "points": points_json(&p, &q)}));
    }
}

/// The same triangle with its target points listed in another order is not the image of the source triple:
/// the pairwise distances belong to other pairs (sides differing by more than 5 mm).
fn permuted_targets(rng: &mut Rng, mon: &mut Mon) {
    let (p1, p2, p3, _) = triangle(rng, rng.clone().range(0.3, 1.0));
    let _ = rng.next_u64();
    let (a, b, c) = (norm(sub(p2, p1)), norm(sub(p3, p1)), norm(sub(p3, p2)));
    if (a - b).abs() < 0.02 || (a - c).abs() < 0.02 || (b - c).abs() < 0.02 {
        mon.inconclusive("permuted:sides-too-similar");
        return;
    }
    let m = motion(rng);
    let img = [m.apply(p1), m.apply(p2), m.apply(p3)];
    let perm = *rng.pick(&[[1usize, 0, 2], [0, 2, 1], [2, 1, 0], [1, 2, 0], [2, 0, 1]]);
    let q = [img[perm[0]], img[perm[1]], img[perm[2]]];
    mon.count("congruence.permuted_targets");
    match guarded(|| Frame::frame(pt(p1), pt(p2), pt(p3), pt(q[0]), pt(q[1]), pt(q[2]))) {
        Err(msg) => mon.violation("congruence:panic", "Frame::frame panicked", json!({"points": points_json(&[p1, p2, p3], &q), "panic": msg})),
        Ok(Ok(_)) => mon.violation("congruence:accepted-permuted-targets", "target points listed in another order (pairwise distances off by more than 5 mm) were accepted", json!({"points": points_json(&[p1, p2, p3], &q), "permutation": perm})),
        Ok(Err(_)) => mon.held(),
    }
}

fn congruence(idx: u64, rng: &mut Rng, mon: &mut Mon) {
    if rng.usize(8) == 0 {
        return permuted_targets(rng, mon);
    }
    let (p1, p2, p3, _s) = triangle(rng, rng.clone().range(0.3, 1.0));
    let _ = rng.next_u64();
    let m = motion(rng);
    let p = [p1, p2, p3];
    let mut q = [m.apply(p1), m.apply(p2), m.apply(p3)];
    // stretch along q1->q3: changes |q1q3| by exactly delta and |q2q3| by at most |delta|
    let above = rng.bool(0.5);
    let delta = rng.sign() * if above { 0.005 + 1e-9 + rng.logu(1e-9, 0.05) } else { (0.005 - 1e-9) * rng.f() };
    let dir = sub(q[2], q[0]);
    let n = norm(dir);
    q[2] = add(q[2], scale(dir, delta / n));
    let res = match guarded(|| Frame::frame(pt(p[0]), pt(p[1]), pt(p[2]), pt(q[0]), pt(q[1]), pt(q[2]))) {
        Ok(r) => r,
        Err(msg) => {
            mon.violation("congruence:panic", "Frame::frame panicked", json!({"points": points_json(&p, &q), "panic": msg}));
            return;
        }
    };
    // recompute the real change of the three distances
    let d = |a: V3, b: V3| norm(sub(a, b));
    let change = [(d(p[0], p[1]) - d(q[0], q[1])).abs(), (d(p[0], p[2]) - d(q[0], q[2])).abs(), (d(p[1], p[2]) - d(q[1], q[2])).abs()];
    let maxc = change.iter().cloned().fold(0.0, f64::max);
    if (maxc - 0.005).abs() < 1e-9 {
        mon.inconclusive("congruence:at-the-threshold");
        return;
    }
    if maxc > 0.005 {
        mon.count("congruence.above");
        match res {
            Err(e) if e.downcast_ref::<NotIsometry>().is_some() => {
                mon.held();
                mon.nontrivial(hash_f64s(&[p1, p2, q[2]].concat()));
            }
            Err(e) => mon.violation("congruence:wrong-error", "non-congruent triples rejected with a different error", json!({"points": points_json(&p, &q), "error": e.to_string(), "max_distance_change": maxc})),
            Ok(_) => mon.violation("congruence:accepted-above-5mm", "point triples whose mutual distances differ by more than 5 mm were accepted", json!({"points": points_json(&p, &q), "max_distance_change": maxc})),
        }
    } else {
        mon.count("congruence.below");
        match res {
            Ok(iso) => {
                let off = norm(p1) + norm(m.p);
                let t1 = 1e-9 * (1.0 + off);
                let t = 3.0 * delta.abs() + 1e-9 * (1.0 + off);
                if check_proper_and_maps(mon, &iso, &p, &q, [t1, t, t], "congruence-below", json!({"delta": delta})) {
                    mon.held();
                    mon.nontrivial(hash_f64s(&[p1, p2, q[2]].concat()));
                }
            }
            Err(e) => mon.violation("congruence:rejected-below-5mm", "point triples within the 5 mm congruence tolerance were rejected", json!({"points": points_json(&p, &q), "error": e.to_string(), "max_distance_change": maxc})),
        }
    }
    if idx < 1 {
        mon.sample(json!({"kind": "congruence", "points": points_json(&p, &q), "max_distance_change": maxc}));
    }
}

fn forward_transformed(idx: u64, rng: &mut Rng, mon: &mut Mon) {
    let robot = gen_robot(rng, idx, RobotMode::NonDegenerate, 0.0);
    let rp = robot.rp;
    let kin = Arc::new(OPWKinematics::new(to_params(&rp)));
    // small frames keep the moved pose reachable in a good share of cases
    // (one frame in twenty is exactly the identity: the target found at its nominal place)
    let exact_identity = rng.usize(20) == 0;
    let fr = if exact_identity { Fr::id() } else if rng.bool(0.7) { Fr { r: axis_angle(unit(rng), rng.range(-0.3, 0.3)), p: [rng.range(-0.1, 0.1), rng.range(-0.1, 0.1), rng.range(-0.1, 0.1)] } } else { random_fr(rng, 0.5) };
    // a quarter of the frames wraps a robot that is itself a Frame (rotation about a pivot off the origin): the
    // inner frame acts like a tool on the wrapped robot, forward and inverse of it must agree
    let inner: Option<Fr> = if rng.bool(0.25) { Some(Fr { r: axis_angle(unit(rng), rng.range(-1.0, 1.0)), p: [rng.range(-0.2, 0.2), rng.range(-0.2, 0.2), rng.range(-0.2, 0.2)] }) } else { None };
    let wrapped: Arc<dyn rs_opw_kinematics::kinematic_traits::Kinematics> = match &inner {
        Some(fi) => {
            mon.count("forward_transformed.frame_wrapping_a_frame");
            Arc::new(Frame { robot: kin.clone(), frame: fr_to_iso(fi) })
        }
        None => kin.clone(),
    };
    let tip = |s: &[f64; 6]| match &inner { Some(fi) => fk(&rp, s).mul(fi), None => fk(&rp, s) };
    let frame = Frame { robot: wrapped, frame: fr_to_iso(&fr) };
    let q = joints_uniform(rng, PI);
    // previous: q itself, anything, or the CONSTRAINT_CENTERED sentinel (without limits: closeness to zeros)
    let pk = rng.usize(20);
    let sentinel = pk >= 17;
    let prev = if sentinel { rs_opw_kinematics::kinematic_traits::CONSTRAINT_CENTERED } else if pk < 9 { q } else { joints_uniform(rng, 2.0 * PI) };
    let (sols, pose) = frame.forward_transformed(&q, &prev);
    let prev_given = prev;
    let prev = if sentinel { [0.0; 6] } else { prev };
    if sentinel {
        mon.count("forward_transformed.sentinel_previous");
    }
    let want = fr.mul(&tip(&q));
    let got = iso_to_fr(&pose);
    let reach = rp.reach() + norm(fr.p);
    let detail = |what: &str, extra: serde_json::Value| json!({"robot": robot_json(&robot), "frame": {"r": fr.r, "p": fr.p}, "inner_frame": inner.map(|f| json!({"r": f.r, "p": f.p})), "q": jf(&q), "prev": jf(&prev_given), "clause": what, "extra": extra});
    if !(pos_dist(&got, &want) <= 1e-11 * (1.0 + reach) && rot_angle(&got.r, &want.r) <= 1e-11) {
        mon.violation("forward-transformed:pose", "returned pose is not frame * FK(q)", detail("pose", json!({"dp": pos_dist(&got, &want)})));
    } else {
        mon.held();
    }
    // nothing may get lost on the way: asking the wrapped robot directly for the (reference) moved pose gives the list
    {
        use rs_opw_kinematics::kinematic_traits::Kinematics;
        // (asked for the bit-identical pose that forward_transformed reports - its agreement with the reference
        // composition is checked above - so that both calls see the same input)
        let direct = frame.robot.inverse_continuing(&pose, &prev_given);
        // (modulo whole turns: a solution angle exactly pi away from previous may take either representative)
        let missing = direct.iter().filter(|d| !sols.iter().any(|s| (0..6).all(|j| circ_dist(s[j], d[j]) <= 1e-6))).count();
        if missing > 0 || sols.len() < direct.len() {
            mon.violation("forward-transformed:solutions-lost", "forward_transformed returns fewer solutions than the wrapped robot finds for the moved pose", detail("complete", json!({"returned": sols.len(), "wrapped_robot_finds": direct.len(), "returned_list": sols.iter().map(|s| jf(s)).collect::<Vec<_>>(), "direct_list": direct.iter().map(|s| jf(s)).collect::<Vec<_>>()})));
        } else {
            mon.held();
        }
    }
    if !sols.is_empty() {
        mon.count("forward_transformed.with_solutions");
        mon.nontrivial(hash_combine(robot_hash(&robot), hash_f64s(&q)));
    }
    let mut ok = true;
    for s in &sols {
        let g = tip(s);
        if !(pos_dist(&g, &want) <= 1e-6 * (1.0 + inner.map(|f| norm(f.p)).unwrap_or(0.0)) + 1e-9 + 1e-12 * reach && rot_angle(&g.r, &want.r) <= 1e-6 + 1e-9) {
            ok = false;
            mon.violation("forward-transformed:solution-does-not-realise-pose", "a returned joint solution does not realise the frame-moved pose", detail("solutions", json!({"solution": jf(s)})));
        }
        if (0..6).any(|j| (s[j] - prev[j]).abs() > PI + 1e-9) {
            ok = false;
            mon.violation("forward-transformed:not-nearest-representative", "a returned angle is not the representative nearest to previous", detail("nearest", json!({"solution": jf(s)})));
        }
    }
    for k in 1..sols.len() {
        let c0: f64 = (0..6).map(|j| (sols[k - 1][j] - prev[j]).abs()).sum();
        let c1: f64 = (0..6).map(|j| (sols[k][j] - prev[j]).abs()).sum();
        if c0 > c1 + 1e-9 {
            ok = false;
            mon.violation("forward-transformed:not-ordered", "solutions are not ordered by closeness to previous", detail("order", json!({"k": k})));
        }
    }
    if ok {
        mon.held();
    }
    // at a wrist-singular pose the answers are built around the caller's PREVIOUS joints (not around qs): with an
    // identity frame, qs exactly singular and previous = qs with J4 / J6 shifted against each other (same pose), the
    // previous vector itself is among the answers (well-conditioned arm postures only, as in C05)
    if rng.bool(0.08) && rp.signs[3] != 0 && rp.signs[5] != 0 && rp.reach() >= 0.3 && rp.reach() <= 12.0 {
        let mut qs = joints_uniform(rng, PI);
        crate::props::ik::place_t5(&rp, &mut qs, 0, 0.0);
        let m = sing_measures(&rp, &qs);
        if m.elbow >= 1e-2 && m.shoulder >= 1e-2 && crate::props::c05::wc_sensitivity(&rp, &qs) <= 3.0 {
            let e = rng.range(-1.0, 1.0);
            let mut pv = qs;
            pv[3] += e * rp.signs[3] as f64;
            pv[5] -= e * rp.signs[5] as f64;
            let idf = Frame { robot: kin.clone(), frame: Frame::translation(pt([0.3, 0.2, 0.1]), pt([0.3, 0.2, 0.1])) };
            let (sols, moved) = idf.forward_transformed(&qs, &pv);
            mon.count("forward_transformed.singular_with_other_previous");
            // what the wrapped robot itself answers for that pose with the caller's previous vector
            let direct = rs_opw_kinematics::kinematic_traits::Kinematics::inverse_continuing(kin.as_ref(), &moved, &pv);
            let missing = direct.iter().filter(|d| !sols.iter().any(|s| (0..6).all(|j| circ_dist(s[j], d[j]) <= 1e-6))).count();
            if missing > 0 {
                mon.violation("forward-transformed:solutions-lost:singular-pose", "wrist-singular pose through an identity frame: an answer the wrapped robot gives for the caller's previous joints is missing", json!({"robot": robot_json(&robot), "qs": jf(&qs), "previous": jf(&pv), "answers": sols.iter().map(|s| jf(s)).collect::<Vec<_>>(), "wrapped_robot": direct.iter().map(|s| jf(s)).collect::<Vec<_>>()}));
            } else {
                mon.held();
            }
        }
    }
    // History: the same taught joints sent through the same frame on robot after robot (a pallet program run in several
    // cells): each robot and its Frame exist only for their own query - built, asked, dropped - and the joint vector is
    // bit-identical throughout. Every answer belongs to the robot that was asked.
    if rng.bool(0.12) {
        let qh = joints_uniform(rng, PI);
        let mut r2 = rp;
        for step in 0..(2 + rng.usize(3)) {
            if step > 0 {
                match rng.usize(4) {
                    0 => { let j = rng.usize(6); r2.signs[j] = -r2.signs[j]; }
                    1 => r2.offsets[rng.usize(6)] += *rng.pick(&[PI / 2.0, -PI / 2.0, 0.3]),
                    2 => r2.c4 += rng.range(0.01, 0.1),
                    _ => r2 = gen_robot(rng, idx + step as u64, RobotMode::NonDegenerate, 0.0).rp,
                }
            }
            let f2 = Frame { robot: Arc::new(OPWKinematics::new(to_params(&r2))), frame: fr_to_iso(&fr) };
            let (sols2, pose2) = f2.forward_transformed(&qh, &qh);
            drop(f2);
            mon.count("forward_transformed.history_steps");
            let want2 = fr.mul(&fk(&r2, &qh));
            let got2 = iso_to_fr(&pose2);
            let reach2 = r2.reach() + norm(fr.p);
            let hd = |extra: serde_json::Value| json!({"first_robot": robot_json(&robot), "asked_robot": {"a1": r2.a1, "a2": r2.a2, "b": r2.b, "c1": r2.c1, "c2": r2.c2, "c3": r2.c3, "c4": r2.c4, "offsets": r2.offsets, "signs": r2.signs}, "step": step, "frame": {"r": fr.r, "p": fr.p}, "q": jf(&qh), "extra": extra});
            if !(pos_dist(&got2, &want2) <= 1e-11 * (1.0 + reach2) && rot_angle(&got2.r, &want2.r) <= 1e-11) {
                mon.violation("forward-transformed:history:pose", "after other robots were asked with the same joints: returned pose is not frame * FK(q) of the robot asked", hd(json!({"dp": pos_dist(&got2, &want2)})));
            } else if sols2.iter().any(|s| { let g = fk(&r2, s); !(pos_dist(&g, &want2) <= 1e-6 + 1e-9 + 1e-12 * reach2 && rot_angle(&g.r, &want2.r) <= 1e-6 + 1e-9) }) {
                mon.violation("forward-transformed:history:solution-does-not-realise-pose", "after other robots were asked with the same joints: a returned solution does not realise the moved pose on the robot asked", hd(json!({"solutions": sols2.iter().map(|s| jf(s)).collect::<Vec<_>>()})));
            } else {
                mon.held();
            }
        }
    }
    // Frame::translation is the pure shift q - p
    let a = [rng.range(-5.0, 5.0), rng.range(-5.0, 5.0), rng.range(-5.0, 5.0)];
    let b = [rng.range(-5.0, 5.0), rng.range(-5.0, 5.0), rng.range(-5.0, 5.0)];
    let t = iso_to_fr(&Frame::translation(pt(a), pt(b)));
    if !(norm(sub(t.p, sub(b, a))) <= 1e-14 && rot_angle(&t.r, &I3) <= 1e-15) {
        mon.violation("translation-frame", "Frame::translation is not the pure shift q - p", json!({"p": a, "q": b}));
    } else {
        mon.held();
    }
    if idx < 1 {
        mon.sample(json!({"kind": "forward_transformed", "robot": robot_json(&robot), "q": jf(&q), "solutions": sols.len()}));
    }
}
