//! C18 — random joint vectors drawn from constraints always satisfy them.

use crate::refmodel::arc_contains;
use crate::report::{guarded, hash_f64s, jf, Mon};
use crate::rng::Rng;
use crate::{Kind, Prop, Spec, Tier};
use rs_opw_kinematics::constraints::Constraints;
use serde_json::json;
use std::f64::consts::PI;

pub fn prop() -> Prop {
    Prop { id: "C18", spec, run_case, finalize: None }
}

fn spec() -> Spec {
    Spec {
        kinds: vec![Kind { name: "sampler", quick: 20_000, thorough: 500_000, serial: false }, Kind { name: "through_planner", quick: 300, thorough: 10_000, serial: false }],
        rule: "each case = one constraint set with per-joint (from,to) in [-2pi,2pi] of classes from<to, from>to straddling zero, from>to both positive, from>to both negative, from==to, limits at +-2pi; 500 draws of random_angles() per set (cases run on 16 threads, the library RNG is thread-local); every draw is judged by the reference arc oracle and by the library's own compliant(); through_planner: the sampler as the RRT planner drives it (synthetic cell, collision checks on, limits with wrap-around ranges that contain start and goal, small try budget): no panic (and, with non-wrapping limits, every node of a returned path is accepted by the limits). non-trivial = set contains at least one wrap-around joint; distinct = hash(from,to) Workload additions: limits installed through update_range histories; from == to with signed zeros; arcs a few ulps wide, plain and wrapping. Rounds 7-9: sets read back from a solver through Kinematics::constraints(); ranges within a milliradian of a full turn; every draw also passed through filter().",
        assumptions: vec![
            "draws within 1e-9 rad of an arc end are inconclusive",
            "from > to with from == to (mod 2pi) describes no arc of positive width and is not generated",
        ],
        minimums: vec![("oracle_evals", 40_000_000, 1_000_000_000), ("wrap_both_positive_joints", 8_000, 200_000), ("wrap_both_negative_joints", 8_000, 200_000), ("planner.calls", 250, 8_000)],
    }
}

/// The sampler as the joint-space planner uses it: wrap-around ranges reach it through plan_rrt.
fn through_planner(idx: u64, rng: &mut Rng, mon: &mut Mon) {
    use crate::cell::Cell;
    use std::sync::atomic::AtomicBool;
    let mut cell = Cell::generate(rng, idx, true, true, false);
    let free = cell.build();
    let mut posture = |rng: &mut Rng| -> Option<[f64; 6]> {
        for _ in 0..20 {
            let t = crate::props::c10::gen_posture(rng);
            let q = cell.robot.rp.from_theta(&t);
            let q: [f64; 6] = std::array::from_fn(|j| q[j].max(-2.8).min(2.8));
            if !free.collides(&q) {
                return Some(q);
            }
        }
        None
    };
    let (start, goal) = match (posture(rng), posture(rng)) {
        (Some(a), Some(b)) => (a, b),
        _ => {
            mon.inconclusive("through_planner:no-free-postures");
            return;
        }
    };
    // per joint: an ordinary range or its wrap-around spelling, both containing start and goal
    let (mut from, mut to) = ([0.0; 6], [0.0; 6]);
    let mut wraps = 0;
    for j in 0..6 {
        let (lo, hi) = (start[j].min(goal[j]) - rng.range(0.05, 0.3), start[j].max(goal[j]) + rng.range(0.05, 0.3));
        if rng.bool(0.5) {
            // the same arc written with both limits in (0, 2pi] or shifted so that from > to
            let f = lo.rem_euclid(2.0 * PI);
            let t = hi.rem_euclid(2.0 * PI);
            from[j] = f;
            to[j] = t;
            if f > t {
                wraps += 1;
            }
        } else {
            from[j] = lo;
            to[j] = hi;
        }
    }
    cell.constraints = Constraints::new(from, to, 0.0);
    if !cell.constraints.compliant(&start) || !cell.constraints.compliant(&goal) {
        mon.inconclusive("through_planner:limits-do-not-contain-the-endpoints");
        return;
    }
    let robot = cell.build();
    let planner = rs_opw_kinematics::rrt::RRTPlanner { step_size_joint_space: rng.range(3.0f64, 10.0).to_radians(), max_try: 20 + rng.usize(60), debug: false };
    let stop = AtomicBool::new(false);
    mon.count("planner.calls");
    if wraps > 0 {
        mon.count("planner.calls_with_wrap_around_ranges");
        mon.nontrivial(hash_f64s(&[from, to, start, goal].concat()));
    }
    match guarded(|| planner.plan_rrt(&start, &goal, &robot, &stop)) {
        Err(msg) => mon.violation("sampler-panic:through-planner", "the planner's sampling of the constraints panicked for limits describing arcs of positive width", json!({"from": jf(&from), "to": jf(&to), "start": jf(&start), "goal": jf(&goal), "panic": msg})),
        Ok(Ok(path)) => {
            // (node legality is promised for non-wrapping limits only, C13)
            if let Some(bad) = path.iter().find(|n| wraps == 0 && !cell.constraints.compliant(n)) {
                mon.violation("planner-node-rejected-by-the-constraints", "a node of the returned path is not accepted by the constraints the planner sampled from", json!({"from": jf(&from), "to": jf(&to), "node": jf(bad)}));
            } else {
                mon.held_n(path.len() as u64);
            }
        }
        Ok(Err(_)) => mon.held(),
    }
}

fn run_case(kind: &str, idx: u64, rng: &mut Rng, mon: &mut Mon, _tier: Tier) {
    if kind == "through_planner" {
        return through_planner(idx, rng, mon);
    }
    let mut from = [0.0; 6];
    let mut to = [0.0; 6];
    let mut classes = vec![];
    for j in 0..6 {
        let (f, t, c) = match rng.usize(9) {
            0 => {
                let a = rng.range(-2.0 * PI, 2.0 * PI);
                let b = rng.range(-2.0 * PI, 2.0 * PI);
                let (a, b) = if a <= b { (a, b) } else { (b, a) };
                if a == b { (a, b, "from==to") } else if b - a > 2.0 * PI { (a, b, "from<to_span_over_2pi") } else { (a, b, "from<to") }
            }
            1 => (rng.range(0.05, 2.0 * PI), rng.range(-2.0 * PI, -0.05), "wrap_straddle"),
            2 => {
                let t = rng.range(0.05, 5.0);
                (rng.range(t + 0.05, 2.0 * PI), t, "wrap_both_positive")
            }
            3 => {
                let f = rng.range(-5.0, -0.05);
                (f, rng.range(-2.0 * PI, f - 0.05), "wrap_both_negative")
            }
            4 => match rng.usize(4) {
                // zeros of opposite sign are equal numbers: from == to, the joint is unconstrained
                0 => (-0.0, 0.0, "from==to"),
                1 => (0.0, -0.0, "from==to"),
                _ => {
                    let v = rng.range(-2.0 * PI, 2.0 * PI);
                    (v, v, "from==to")
                }
            },
            5 => (rng.range(0.05, 2.0 * PI), 0.0, "wrap_to_zero"),
            // almost the whole turn: a forbidden sliver of 2e-5 .. 8e-4 rad (limits typed as +-3.1413 and the like),
            // as a plain range or as a wrap-around range
            8 => {
                let g = rng.logu(1e-5, 4e-4);
                let c = rng.range(-PI, PI);
                if rng.bool(0.5) { (c + g - 2.0 * PI, c - g, "almost_full_turn") } else { (c + g, c - g, "almost_full_turn_wrapping") }
            }
            // arcs of positive but tiny width: a few ulps up to a nanoradian, plain or wrapping through 0
            7 => {
                let w = if rng.bool(0.4) { rng.int(1, 6) as f64 * f64::EPSILON * 4.0 } else { rng.logu(1e-15, 1e-9) };
                if rng.bool(0.6) {
                    let f = rng.range(-2.0 * PI, 2.0 * PI);
                    let t = f + w;
                    if t > f { (f, t, "tiny_arc") } else { (f, f + 1e-9, "tiny_arc") }
                } else {
                    (2.0 * PI - w, w * rng.f(), "tiny_arc_wrapping")
                }
            }
            _ => (*rng.pick(&[-2.0 * PI, -PI, 0.0]), *rng.pick(&[PI / 2.0, PI - 0.01, PI, 2.0 * PI]), "from<to_edges"),
        };
        // exclude from>to with from==to mod 2pi
        let (f, t) = if f > t && ((f - t) % (2.0 * PI)).abs() < 1e-9 { (f, t + 0.1) } else { (f, t) };
        from[j] = f;
        to[j] = t;
        classes.push(c);
        mon.count(&format!("{}_joints", c));
    }
    // all three ways of setting the limits
    let ctor = rng.usize(3);
    let c = match ctor {
        0 => Constraints::new(from, to, 0.0),
        1 => {
            crate::gen::via_update_range(rng, from, to, 0.0)
        }
        _ => {
            let r: [std::ops::RangeInclusive<f64>; 6] = std::array::from_fn(|j| from[j].to_degrees()..=to[j].to_degrees());
            let c = Constraints::from_degrees(r, 0.0);
            // what it stored is what the arcs are judged by
            from = c.from;
            to = c.to;
            c
        }
    };
    mon.count(&format!("constructor.{}", ["new", "update_range", "from_degrees"][ctor]));
    // a fifth of the sets is not used directly but handed to a solver (dof 5 or 6, bare or behind a tool) and read
    // back through Kinematics::constraints(), the way the planner's sampling callback obtains it
    let c = if rng.bool(0.2) {
        use rs_opw_kinematics::kinematic_traits::Kinematics;
        let mut p = rs_opw_kinematics::parameters::opw_kinematics::Parameters::irb2400_10();
        if rng.bool(0.5) {
            p.dof = 5;
            if rng.bool(0.5) {
                p.sign_corrections[5] = 0;
            }
        }
        let solver: std::sync::Arc<dyn Kinematics> = std::sync::Arc::new(rs_opw_kinematics::kinematics_impl::OPWKinematics::new_with_constraints(p, c));
        let solver: std::sync::Arc<dyn Kinematics> = if rng.bool(0.5) { std::sync::Arc::new(rs_opw_kinematics::tool::Tool { robot: solver, tool: nalgebra::Isometry3::translation(0.0, 0.0, 0.1) }) } else { solver };
        mon.count("sets_read_back_from_a_solver");
        match solver.constraints() {
            Some(c2) => *c2,
            None => {
                mon.violation("solver-lost-its-constraints", "a solver built with constraints reports none", json!({"from": jf(&from), "to": jf(&to)}));
                return;
            }
        }
    } else {
        c
    };
    if classes.iter().any(|c| c.starts_with("wrap")) {
        mon.nontrivial(hash_f64s(&[from, to].concat()));
    }
    let mut reported: std::collections::BTreeSet<String> = Default::default();
    for _ in 0..500 {
        let draw = match guarded(|| c.random_angles()) {
            Ok(d) => d,
            Err(msg) => {
                mon.violation("sampler-panic", "random_angles() panicked for limits describing arcs of positive width", json!({"from": jf(&from), "to": jf(&to), "panic": msg}));
                break;
            }
        };
        mon.count("draws");
        // the list form of the same acceptance test (what every IK call uses) must keep the draw as well
        if c.compliant(&draw) && c.filter(&vec![draw]).len() != 1 {
            if reported.insert("filter".to_string()) {
                mon.violation("draw-dropped-by-own-filter", "a drawn joint vector is accepted by compliant() but dropped by filter() of the same constraints", json!({"from": jf(&from), "to": jf(&to), "drawn": jf(&draw), "classes": classes}));
            }
        }
        // "accepted by the same constraints": the library's own verdict on its own draw
        if !c.compliant(&draw) {
            let all_ref_ok = (0..6).all(|j| arc_contains(from[j], to[j], draw[j]).0 != Some(false));
            if reported.insert(format!("own-compliant:{}", all_ref_ok)) {
                mon.violation(if all_ref_ok { "draw-rejected-by-own-compliant" } else { "draw-rejected-by-own-compliant-and-outside-arc" }, "a drawn joint vector is not accepted by the constraints it was drawn from", json!({"from": jf(&from), "to": jf(&to), "drawn": jf(&draw), "classes": classes}));
            }
        } else {
            mon.held();
        }
        for j in 0..6 {
            let (v, d) = arc_contains(from[j], to[j], draw[j]);
            if d < 1e-9 {
                mon.inconclusive("draw-near-arc-end");
                continue;
            }
            if v == Some(false) || !draw[j].is_finite() {
                if reported.insert(classes[j].to_string()) {
                    mon.violation(&format!("draw-outside-arc:{}", classes[j]), "a drawn angle lies outside the arc it was drawn for", json!({"from": from[j], "to": to[j], "drawn": draw[j], "joint": j, "class": classes[j]}));
                } else {
                    mon.count("violating_draws_not_stored");
                }
            } else {
                mon.held();
            }
        }
    }
    if idx < 2 {
        mon.sample(json!({"from": jf(&from), "to": jf(&to), "classes": classes, "example_draw": guarded(|| c.random_angles()).map(|d| jf(&d)).unwrap_or(json!("panicked"))}));
    }
}
