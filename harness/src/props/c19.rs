//! C19 — parameter YAML round-trips and every documented syntax variant parses.

use crate::gen::*;
use crate::props::{robot_hash, robot_json};
use crate::report::{guarded, hash_f64s, Mon};
use crate::rng::Rng;
use crate::{Kind, Prop, Spec, Tier};
use rs_opw_kinematics::parameters::opw_kinematics::Parameters;
use serde_json::json;
use std::f64::consts::PI;
use std::sync::atomic::{AtomicU64, Ordering};

pub fn prop() -> Prop {
    Prop { id: "C19", spec, run_case, finalize: None }
}

fn spec() -> Spec {
    Spec {
        kinds: vec![
            Kind { name: "roundtrip", quick: 30_000, thorough: 600_000, serial: false },
            Kind { name: "variants", quick: 40_000, thorough: 800_000, serial: false },
            Kind { name: "mutants", quick: 80_000, thorough: 3_000_000, serial: false },
        ],
        rule: "roundtrip: generated parameter sets (all geometry classes, integral-valued lengths such as b = 0 or c1 = 1, negative values, dof 5/6, J6 sign 0, offsets none / right angles / arbitrary) -> to_yaml() -> file -> from_yaml_file: geometry, signs, dof identical, offsets within 0.5e-4 degree. variants: files written by the harness in the documented format with integer vs real literals, deg(x) vs radians, 5- or 6-element arrays, dof nested / top-level / absent, comments, shuffled key order: must parse to the written values. mutants: valid files truncated, with deleted / duplicated lines, type swaps, random or non-UTF8 bytes, empty: Err or Ok, never a panic. non-trivial = file parsed (roundtrip/variants) or mutant differs from its original (mutants); distinct = hash(file text) Workload additions: dof-6 sets with a blocked sixth sign; offsets that cancel exactly; valid UTF-8 multi-byte scalars; integers around every machine width as scalar replacements. Rounds 7-9: non-ASCII comments in the mutated files; huge integral lengths. Round 10: files in the documented format with a comment block of 3..40 KiB; link lengths replaced by values that are not numbers (text, null, empty, list, map, boolean, quoted, decimal comma) must be refused with an error value.",
        assumptions: vec![
            "the documented place of the dof entry is the top level (doc comment of from_yaml_file and to_yaml output); the nested place used by the bundled 5-DOF fixture is also accepted",
            "files are written under /verif/target/tmp/c19 and removed after each case",
        ],
        minimums: vec![("oracle_evals", 120_000, 3_500_000), ("roundtrip.dof5", 3_000, 60_000), ("variants.parsed", 30_000, 600_000), ("mutants.survived", 60_000, 2_000_000)],
    }
}

static COUNTER: AtomicU64 = AtomicU64::new(0);

fn with_file<T>(bytes: &[u8], f: impl FnOnce(&str) -> T) -> T {
    let dir = "/verif/target/tmp/c19";
    let _ = std::fs::create_dir_all(dir);
    let path = format!("{}/{}-{}.yaml", dir, std::process::id(), COUNTER.fetch_add(1, Ordering::Relaxed));
    std::fs::write(&path, bytes).expect("cannot write scratch yaml");
    let r = f(&path);
    let _ = std::fs::remove_file(&path);
    r
}

fn run_case(kind: &str, idx: u64, rng: &mut Rng, mon: &mut Mon, _tier: Tier) {
    match kind {
        "roundtrip" => roundtrip(idx, rng, mon),
        "variants" => variants(idx, rng, mon),
        _ => mutants(idx, rng, mon),
    }
}

fn integralize(rng: &mut Rng, v: f64) -> f64 {
    match rng.usize(5) {
        0 => 0.0,
        1 => v.round(),
        2 => (v * 10.0).round() / 10.0,
        _ => v,
    }
}

fn roundtrip(idx: u64, rng: &mut Rng, mon: &mut Mon) {
    let mut robot = gen_robot(rng, idx, RobotMode::All, 0.3);
    {
        let p = &mut robot.rp;
        // tiny but non-zero offsets (calibration corrections next to the printed precision)
        if rng.bool(0.2) {
            let j = rng.usize(6);
            p.offsets[j] = rng.sign() * rng.logu(1e-6, 2e-3);
        }
        // (the reader blocks the sixth sign of every dof-5 set, as documented: that is their normal form)
        if p.dof == 5 {
            p.signs[5] = 0;
        }
        // (a blocked sixth joint - sign correction 0 - can be declared with either dof value)
        if p.dof == 6 && rng.bool(0.1) {
            p.signs[5] = 0;
            mon.count("roundtrip.dof6_with_blocked_j6_sign");
        }
        // offsets that cancel exactly (+x on one joint, -x on another; the sum of all offsets is 0.0)
        if rng.bool(0.15) {
            let (a, b) = (rng.usize(6), rng.usize(6));
            if a != b {
                let x = *rng.pick(&[std::f64::consts::FRAC_PI_2, std::f64::consts::PI, 0.25f64.to_radians(), 1.0, rng.clone().range(0.01, 3.0)]);
                p.offsets = [0.0; 6];
                p.offsets[a] = x;
                p.offsets[b] = -x;
                mon.count("roundtrip.offsets_cancelling_exactly");
            }
        }
        // (lengths that print as integer literals beyond 32 bits: a geometry kept in micrometres or nanometres)
        if rng.usize(30) == 0 {
            p.c1 = *rng.pick(&[3e9, 1e12, 9007199254740992.0, -5e10, 2147483648.0]);
            mon.count("roundtrip.huge_integral_lengths");
        }
        p.a1 = integralize(rng, p.a1);
        p.a2 = integralize(rng, p.a2);
        p.b = integralize(rng, p.b);
        p.c1 = integralize(rng, p.c1 * 2.0);
        p.c4 = integralize(rng, p.c4);
    }
    let rp = robot.rp;
    let params = to_params(&rp);
    let text = params.to_yaml();
    let res = with_file(text.as_bytes(), |path| guarded(|| Parameters::from_yaml_file(path)));
    if rp.dof == 5 {
        mon.count("roundtrip.dof5");
    }
    let detail = |extra: serde_json::Value| json!({"robot": robot_json(&robot), "yaml": text, "extra": extra});
    match res {
        Err(msg) => mon.violation("roundtrip:panic", "from_yaml_file panicked on the library's own to_yaml output", detail(json!({"panic": msg}))),
        Ok(Err(e)) => {
            let es = e.to_string();
            let cls = if es.contains("Missing Field") { format!("missing-field:{}", es.rsplit(' ').next().unwrap_or("")) } else { "other".to_string() };
            mon.violation(&format!("roundtrip:rejected:{}", cls), "the library's own to_yaml output does not parse back", detail(json!({"error": es})));
        }
        Ok(Ok(back)) => {
            let b = from_params(&back);
            let mut diffs = vec![];
            for (n, x, y) in [("a1", rp.a1, b.a1), ("a2", rp.a2, b.a2), ("b", rp.b, b.b), ("c1", rp.c1, b.c1), ("c2", rp.c2, b.c2), ("c3", rp.c3, b.c3), ("c4", rp.c4, b.c4)] {
                if x.to_bits() != y.to_bits() && !(x == y) {
                    diffs.push(n.to_string());
                }
            }
            if rp.signs != b.signs {
                diffs.push("signs".into());
            }
            if rp.dof != b.dof {
                diffs.push("dof".into());
            }
            for j in 0..6 {
                if !((rp.offsets[j] - b.offsets[j]).abs() <= 0.5e-4f64.to_radians() + 1e-12) {
                    diffs.push(format!("offset{}", j + 1));
                }
            }
            if diffs.is_empty() {
                mon.held();
                mon.nontrivial(crate::rng::hash_str(&text));
            } else {
                mon.violation(&format!("roundtrip:changed:{}", diffs[0].trim_end_matches(char::is_numeric)), "parameters changed in a to_yaml -> from_yaml_file round trip", detail(json!({"changed": diffs, "read_back": robot_json(&Robot { rp: b, ..robot })})));
            }
        }
    }
    if idx < 2 {
        mon.sample(json!({"kind": "roundtrip", "yaml": text}));
    }
}

struct Written {
    text: String,
    expect: crate::refmodel::RParams,
    features: Vec<&'static str>,
}

fn num(rng: &mut Rng, v: f64, features: &mut Vec<&'static str>) -> (String, f64) {
    // integer literal when the value is integral (half of the time), else a decimal literal
    if v == v.round() && rng.bool(0.6) {
        features.push("integer_length");
        let s = format!("{}", v as i64);
        (s, v)
    } else {
        let s = match rng.usize(3) {
            0 => format!("{}", v),
            1 => format!("{:.4}", v),
            _ => format!("{:.2}", v),
        };
        let s = if s.contains('.') { s } else { format!("{}.0", s) };
        let back: f64 = s.parse().unwrap();
        (s, back)
    }
}

fn write_variant(rng: &mut Rng) -> Written {
    let mut features = vec![];
    let vals: Vec<f64> = (0..7)
        .map(|i| {
            let v = match i {
                0 => rng.range(-0.3, 0.5),
                1 => rng.range(-0.3, 0.3),
                2 => rng.range(-0.2, 0.2),
                _ => rng.range(0.05, 1.2),
            };
            integralize(rng, v)
        })
        .collect();
    let names = ["a1", "a2", "b", "c1", "c2", "c3", "c4"];
    let mut expect = crate::refmodel::RParams { a1: 0.0, a2: 0.0, b: 0.0, c1: 0.0, c2: 0.0, c3: 0.0, c4: 0.0, offsets: [0.0; 6], signs: [1; 6], dof: 6 };
    let mut order: Vec<usize> = (0..7).collect();
    if rng.bool(0.5) {
        features.push("shuffled_keys");
        for i in (1..7).rev() {
            order.swap(i, rng.usize(i + 1));
        }
    }
    let dof = if rng.bool(0.4) { 5 } else { 6 };
    let dof_place = rng.usize(3); // 0 absent (only for 6), 1 nested, 2 top-level
    let dof_place = if dof == 5 && dof_place == 0 { 1 + rng.usize(2) } else { dof_place };
    let mut geo = String::from("opw_kinematics_geometric_parameters:\n");
    for &i in &order {
        let (s, back) = num(rng, vals[i], &mut features);
        match i {
            0 => expect.a1 = back,
            1 => expect.a2 = back,
            2 => expect.b = back,
            3 => expect.c1 = back,
            4 => expect.c2 = back,
            5 => expect.c3 = back,
            _ => expect.c4 = back,
        }
        let comment = if rng.bool(0.15) { " # metres" } else { "" };
        geo.push_str(&format!("  {}: {}{}\n", names[i], s, comment));
    }
    if dof_place == 1 {
        features.push("dof_nested");
        geo.push_str(&format!("  dof: {}\n", dof));
    }
    // offsets
    let n_off = if rng.bool(0.3) { 5 } else { 6 };
    if n_off == 5 {
        features.push("five_offsets");
    }
    let mut offs = vec![];
    for j in 0..n_off {
        let (s, v): (String, f64) = match rng.usize(6) {
            0 => ("0".to_string(), 0.0),
            5 => {
                features.push("integer_radians");
                let r = *rng.pick(&[1i64, -1, 2, -2, 3, -3]);
                (format!("{}", r), r as f64)
            }
            1 => {
                features.push("deg_integer");
                let d = *rng.pick(&[-180i64, -90, 90, 180, 45]);
                (format!("deg({})", d), (d as f64).to_radians())
            }
            2 => {
                features.push("deg_real");
                let d = (rng.range(-180.0, 180.0) * 100.0).round() / 100.0;
                let s = format!("deg({:.2})", d);
                let back: f64 = format!("{:.2}", d).parse().unwrap();
                (s, back.to_radians())
            }
            3 => {
                features.push("radians");
                let r = (rng.range(-PI, PI) * 1e4).round() / 1e4;
                let s = format!("{:.4}", r);
                let back: f64 = s.parse().unwrap();
                (s, back)
            }
            _ => ("0.0".to_string(), 0.0),
        };
        expect.offsets[j] = v;
        offs.push(s);
    }
    let n_sign = if rng.bool(0.3) { 5 } else { 6 };
    if n_sign == 5 {
        features.push("five_signs");
    }
    let mut signs = vec![];
    for j in 0..6 {
        let s: i8 = if rng.bool(0.5) { 1 } else { -1 };
        if j < n_sign {
            expect.signs[j] = s;
            signs.push(format!("{}", s));
        } else {
            expect.signs[j] = 0;
        }
    }
    expect.dof = dof;
    if dof == 5 {
        expect.signs[5] = 0;
    }
    let sep = if rng.bool(0.5) { ", " } else { "," };
    let off_line = format!("opw_kinematics_joint_offsets: [{}]\n", offs.join(sep));
    let sign_line = format!("opw_kinematics_joint_sign_corrections: [{}]{}\n", signs.join(sep), if n_sign == 5 { " # 5 members ok" } else { "" });
    let mut sections = vec![geo, off_line, sign_line];
    if dof_place == 2 {
        features.push("dof_top_level");
        sections.push(format!("dof: {}\n", dof));
    }
    if dof_place == 0 {
        features.push("dof_absent");
    }
    if rng.bool(0.4) {
        features.push("shuffled_sections");
        for i in (1..sections.len()).rev() {
            sections.swap(i, rng.usize(i + 1));
        }
    }
    let mut text = String::new();
    if rng.bool(0.5) {
        features.push("comments");
        text.push_str("#\n# generated robot description\n#\n");
    }
    for s in sections {
        text.push_str(&s);
        if rng.bool(0.2) {
            text.push_str("\n# a comment between sections\n");
        }
    }
    Written { text, expect, features }
}

fn variants(idx: u64, rng: &mut Rng, mon: &mut Mon) {
    let mut w = write_variant(rng);
    // (one file in twelve carries a long comment block - a licence header, calibration notes - of 3 .. 40 KiB at a
    // line boundary: the file is then larger than any single read buffer)
    if rng.usize(12) == 0 {
        let mut lines: Vec<String> = w.text.lines().map(|l| l.to_string()).collect();
        let at = if rng.bool(0.5) { 0 } else { rng.usize(lines.len() + 1) };
        let total = rng.logu(3_000.0, 40_000.0) as usize;
        let mut block: Vec<String> = vec![];
        let mut n = 0;
        while n < total {
            let l = format!("# {}", "calibration notes, do not edit; ".repeat(1 + rng.usize(3)));
            n += l.len() + 1;
            block.push(l);
        }
        for (i, l) in block.into_iter().enumerate() {
            lines.insert(at + i, l);
        }
        w.text = lines.join("\n") + "\n";
        w.features.push("long_comment_block");
    }
    let res = with_file(w.text.as_bytes(), |path| guarded(|| Parameters::from_yaml_file(path)));
    for f in &w.features {
        mon.count(&format!("variants.feature.{}", f));
    }
    let detail = |extra: serde_json::Value| json!({"yaml": w.text, "features": w.features, "extra": extra});
    match res {
        Err(msg) => mon.violation("variants:panic", "from_yaml_file panicked on a file in the documented format", detail(json!({"panic": msg}))),
        Ok(Err(e)) => {
            let es = e.to_string();
            let cls = if es.contains("Missing Field") { "missing-field" } else { "other" };
            let feat = if w.features.contains(&"integer_length") { "integer_length" } else { "no-integer-length" };
            mon.violation(&format!("variants:rejected:{}:{}", cls, feat), "a file in the documented format was rejected", detail(json!({"error": es})));
        }
        Ok(Ok(back)) => {
            mon.count("variants.parsed");
            let b = from_params(&back);
            let e = &w.expect;
            let mut diffs: Vec<String> = vec![];
            for (n, x, y) in [("a1", e.a1, b.a1), ("a2", e.a2, b.a2), ("b", e.b, b.b), ("c1", e.c1, b.c1), ("c2", e.c2, b.c2), ("c3", e.c3, b.c3), ("c4", e.c4, b.c4)] {
                if !(x == y) {
                    diffs.push(n.to_string());
                }
            }
            if e.signs != b.signs {
                diffs.push("signs".into());
            }
            if e.dof != b.dof {
                diffs.push(format!("dof:{}", if w.features.contains(&"dof_top_level") { "top-level" } else if w.features.contains(&"dof_nested") { "nested" } else { "absent" }));
            }
            for j in 0..6 {
                if !((e.offsets[j] - b.offsets[j]).abs() <= 1e-12) {
                    diffs.push("offsets".to_string());
                    break;
                }
            }
            if diffs.is_empty() {
                mon.held();
                mon.nontrivial(crate::rng::hash_str(&w.text));
            } else {
                mon.violation(&format!("variants:misread:{}", diffs[0]), "a file in the documented format was parsed to different values", detail(json!({"misread": diffs, "parsed": {"a1": b.a1, "a2": b.a2, "b": b.b, "c1": b.c1, "c2": b.c2, "c3": b.c3, "c4": b.c4, "offsets": b.offsets, "signs": b.signs, "dof": b.dof}})));
            }
        }
    }
    if idx < 2 {
        mon.sample(json!({"kind": "variants", "yaml": w.text, "features": w.features}));
    }
}

fn mutants(idx: u64, rng: &mut Rng, mon: &mut Mon) {
    let base = if rng.bool(0.5) { write_variant(rng).text } else { to_params(&gen_robot(rng, idx, RobotMode::All, 0.3).rp).to_yaml() };
    // (hand-edited files carry comments such as "# J3 -90°, J6 180°": non-ASCII text before whatever breaks later)
    let base = if rng.bool(0.4) {
        let mut lines: Vec<String> = base.lines().map(|l| l.to_string()).collect();
        for _ in 0..(1 + rng.usize(3)) {
            let k = rng.usize(lines.len().max(1));
            let c = *rng.pick(&[" # J3 -90°, J6 180°", " # Länge in Metern", " # ±0.5° калибровка", " # 𝜋/2"]);
            if rng.bool(0.5) && k < lines.len() {
                lines[k].push_str(c);
            } else {
                lines.insert(k.min(lines.len()), c.trim_start().to_string());
            }
        }
        mon.count("mutants.files_with_non_ascii_comments");
        lines.join("\n") + "\n"
    } else {
        base
    };
    let mut bytes = base.clone().into_bytes();
    let mkind = rng.usize(11);
    let mut non_numeric_length: Option<String> = None;
    let mname = ["truncate", "delete_line", "duplicate_line", "type_swap", "random_bytes", "empty", "non_utf8", "only_comments", "multi_doc", "structure_swap", "array_length"][mkind];
    match mkind {
        0 => {
            let n = rng.usize(bytes.len() + 1);
            bytes.truncate(n);
        }
        1 | 2 => {
            let mut lines: Vec<&str> = base.lines().collect();
            if !lines.is_empty() {
                let k = rng.usize(lines.len());
                if mkind == 1 {
                    lines.remove(k);
                } else {
                    let l = lines[k];
                    lines.insert(k, l);
                }
            }
            bytes = (lines.join("\n") + "\n").into_bytes();
        }
        3 => {
            // replace one scalar value by another type
            // (valid UTF-8 with multi-byte characters at every byte offset: unit signs, decimal commas,
            // full-width digits, as a user pasting "-90°" or "π/2" into the file would produce)
            let unicode: String = {
                let alphabet = ['°', '€', 'π', '½', 'é', '∞', '𝜋', '９', 'a', '1', '-', '(', ')', '.', 'd', 'e', 'g', '9', '0'];
                let body: String = (0..(1 + rng.usize(9))).map(|_| *rng.pick(&alphabet)).collect();
                match rng.usize(3) { 0 => format!("\"{}\"", body), 1 => format!("deg({})", body), _ => body }
            };
            let fixed = *rng.pick(&["abc", "[1, 2]", "{x: 1}", "~", "", "true", "'0.5'", "1e400", "-", ".nan", "deg(", "deg(x)", "deg()", "-90°", "90°", "abc€de", "\"π/2 \"", "deg(90°)", "DEG(90)", "1,5", "½",
                // integers around every machine width (an entry such as dof is narrowed on the way in)
                "127", "128", "130", "134", "-125", "-128", "-129", "255", "256", "384", "32768", "65536", "2147483648", "4294967296", "9223372036854775680", "9223372036854775807", "-9223372036854775808", "18446744073709551616"]);
            let from_fixed = !rng.bool(0.4);
            let repl: &str = if !from_fixed { mon.count("mutants.multibyte_scalars"); &unicode } else { fixed };
            let mut lines: Vec<String> = base.lines().map(|s| s.to_string()).collect();
            let cand: Vec<usize> = lines.iter().enumerate().filter(|(_, l)| l.contains(": ")).map(|(i, _)| i).collect();
            if !cand.is_empty() {
                let k = cand[rng.usize(cand.len())];
                let pos = lines[k].find(": ").unwrap();
                if lines[k].contains('[') && rng.bool(0.7) {
                    // replace one array element
                    let inner_start = lines[k].find('[').unwrap() + 1;
                    let inner_end = lines[k].rfind(']').unwrap_or(lines[k].len());
                    let mut items: Vec<String> = lines[k][inner_start..inner_end].split(',').map(|s| s.to_string()).collect();
                    if !items.is_empty() {
                        let e = rng.usize(items.len());
                        items[e] = repl.to_string();
                    }
                    lines[k] = format!("{}[{}]", &lines[k][..inner_start - 1], items.join(","));
                } else {
                    // (a link length whose value is not a number at all: the file is malformed and must be refused)
                    let key = lines[k][..pos].trim().to_string();
                    if from_fixed && ["a1", "a2", "b", "c1", "c2", "c3", "c4"].contains(&key.as_str()) && ["abc", "[1, 2]", "{x: 1}", "~", "true", "'0.5'", "abc€de", "1,5", "½", "-90°", "deg(x)", ""].contains(&repl) {
                        non_numeric_length = Some(key);
                    }
                    lines[k] = format!("{}: {}", &lines[k][..pos], repl);
                }
            }
            bytes = (lines.join("\n") + "\n").into_bytes();
        }
        4 => {
            for _ in 0..(1 + rng.usize(8)) {
                let pos = rng.usize(bytes.len() + 1);
                let b = *rng.pick(&[b':', b'[', b']', b'{', b'}', b'#', b'\n', b'\t', b' ', b'-', b'&', b'*', b'!', b'|', b'>', b'"', b'\'', b'%', b'@', b'`', b',', b'?']);
                bytes.insert(pos, b);
            }
        }
        5 => bytes.clear(),
        6 => {
            for _ in 0..(1 + rng.usize(4)) {
                let pos = rng.usize(bytes.len() + 1);
                bytes.insert(pos, *rng.pick(&[0xffu8, 0xfe, 0xc3, 0x80, 0x00]));
            }
        }
        7 => bytes = b"# nothing here\n# at all\n".to_vec(),
        8 => {
            let mut t = String::from("---\n");
            if rng.bool(0.5) {
                t.push_str("...\n---\n");
            }
            t.push_str(&base);
            if rng.bool(0.5) {
                t.push_str("---\nother: 1\n");
            }
            bytes = t.into_bytes();
        }
        10 => {
            // arrays with too few / too many / no entries (together with either dof value)
            let mut lines: Vec<String> = base.lines().map(|s| s.to_string()).collect();
            for l in lines.iter_mut() {
                if l.contains('[') && l.contains(']') && rng.bool(0.6) {
                    let a = l.find('[').unwrap() + 1;
                    let b = l.rfind(']').unwrap();
                    let items: Vec<String> = l[a..b].split(',').map(|s| s.trim().to_string()).filter(|s| !s.is_empty()).collect();
                    let n = *rng.pick(&[0usize, 1, 2, 3, 4, 7, 8]);
                    let mut out: Vec<String> = vec![];
                    for k in 0..n {
                        out.push(items.get(k % items.len().max(1)).cloned().unwrap_or_else(|| "1".to_string()));
                    }
                    *l = format!("{}[{}]{}", &l[..a - 1], out.join(", "), &l[b + 1..]);
                }
            }
            let mut t = lines.join("\n") + "\n";
            if rng.bool(0.5) {
                t = t.replace("dof: 6", "dof: 5");
                if !t.contains("dof:") {
                    t.push_str("dof: 5\n");
                }
            }
            bytes = t.into_bytes();
        }
        _ => {
            // top-level structure is a list / scalar / the geometry block is a list
            let t = match rng.usize(4) {
                0 => "- 1\n- 2\n".to_string(),
                1 => "just a scalar\n".to_string(),
                2 => base.replace("opw_kinematics_geometric_parameters:\n", "opw_kinematics_geometric_parameters: [1,2,3]\nx:\n"),
                _ => base.replace("opw_kinematics_joint_offsets: [", "opw_kinematics_joint_offsets: [[1],"),
            };
            bytes = t.into_bytes();
        }
    }
    mon.count(&format!("mutants.kind.{}", mname));
    let res = with_file(&bytes, |path| guarded(|| Parameters::from_yaml_file(path).map(|_| ()).map_err(|e| e.to_string())));
    match res {
        Err(msg) => {
            // signature: where it panicked (file:line), so that a different panic is a different finding
            let at = msg.rsplit(" @ ").next().unwrap_or("?").to_string();
            mon.violation(&format!("mutants:panic:{}:{}", mname, at), "from_yaml_file panicked on a malformed file", json!({"mutation": mname, "file_bytes_lossy": String::from_utf8_lossy(&bytes), "panic": msg}));
        }
        Ok(r) => {
            mon.held();
            mon.count("mutants.survived");
            mon.count(if r.is_ok() { "mutants.parsed_ok" } else { "mutants.returned_err" });
            if let Some(key) = &non_numeric_length {
                mon.count("mutants.non_numeric_lengths");
                if r.is_ok() {
                    mon.violation("mutants:accepted:non-numeric-length", "a file whose link length is not a number was accepted instead of yielding an error value", json!({"mutation": mname, "key": key, "file_bytes_lossy": String::from_utf8_lossy(&bytes)}));
                } else {
                    mon.held();
                }
            }
            if bytes != base.as_bytes() {
                mon.nontrivial(hash_f64s(&[bytes.len() as f64, bytes.iter().map(|b| *b as f64).sum::<f64>(), crate::rng::hash_str(&String::from_utf8_lossy(&bytes)) as f64]));
            }
        }
    }
    if idx < 1 {
        mon.sample(json!({"kind": "mutants", "mutation": mname, "file_bytes_lossy": String::from_utf8_lossy(&bytes)}));
    }
}
