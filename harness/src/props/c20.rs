//! C20 — URDF extraction recovers parameters, signs and limits of any OPW-layout robot.

use crate::report::{guarded, jf, Mon};
use crate::rng::Rng;
use crate::{Kind, Prop, Spec, Tier};
use rs_opw_kinematics::kinematic_traits::Kinematics;
use rs_opw_kinematics::urdf::from_urdf;
use serde_json::json;
use std::f64::consts::PI;

pub fn prop() -> Prop {
    Prop { id: "C20", spec, run_case, finalize: None }
}

fn spec() -> Spec {
    Spec {
        kinds: vec![
            Kind { name: "extract", quick: 15_000, thorough: 600_000, serial: false },
            Kind { name: "errors", quick: 6_000, thorough: 200_000, serial: false },
            Kind { name: "mutants", quick: 10_000, thorough: 1_000_000, serial: false },
        ],
        rule: "extract: OPW values (multiples of 1 mm, incl. zero a1/a2/b/c1/c4, negative a1/a2/b) written by the harness as URDF/xacro in every supported layout (c2 along z or x of joint 3, b on joint 3's y, c3 on joint 4 or joint 5, a2 as -z of joint 4, c4 along x or z), axis signs per joint, limits as radians / ${radians(deg)} / absent, shuffled joint order, random nesting depth, name decorations (${prefix}, side prefixes, case, underscores, KUKA style joint_a1), explicit joint-name lists (incl. a tcp name in place of joint 6), an identical second robot copy, extra fixed joints: extracted a1..c4, signs, from/to must equal the generator's; a joint without <limit> must accept every angle in the solver returned by to_robot. errors: missing joint, conflicting duplicate, malformed XML, malformed xyz: Err, never a panic. mutants: byte/line mutations of valid files: never a panic. non-trivial = extraction succeeded; distinct = hash(file text) Workload additions: <limit> elements without bounds; limits up to +-720 degrees / +-12.5 rad; the solver built by to_robot judged on sampled angles against the generator's arcs; the same document read with an explicit list of its raw names before / after the automatic reading; non-ASCII name prefixes; negative c2 / c3; axis components written as reals. Rounds 7-9: children of a joint element in any order; parameters() and the forward kinematics of to_robot() compared with the generator; joints at different nesting depths; one <limit> mixing both syntaxes; short / long xyz vectors.",
        assumptions: vec![
            "generated geometry has c2 != 0 and, for the c3-on-joint-4 layout, a2 != 0: with those values zero the single-non-zero heuristics of the extractor cannot distinguish the layouts and the description is ambiguous",
            "the dof value reported for an explicit name list with a tcp name is recorded in the evidence but not judged (the statement does not define it)",
        ],
        minimums: vec![("oracle_evals", 30_000, 1_500_000), ("extract.ok", 12_000, 500_000), ("extract.unlimited_joints_checked", 3_000, 100_000), ("errors.rejected", 4_000, 150_000)],
    }
}

#[derive(Clone, Debug)]
struct Gen {
    a1: f64,
    a2: f64,
    b: f64,
    c1: f64,
    c2: f64,
    c3: f64,
    c4: f64,
    signs: [i8; 6],
    from: [f64; 6],
    to: [f64; 6],
    limited: [bool; 6],
    names: [String; 6],
    explicit: bool,
    text: String,
    features: Vec<String>,
}

fn mm(rng: &mut Rng, lo: f64, hi: f64) -> f64 {
    ((rng.range(lo, hi) * 1000.0).round()) / 1000.0
}

fn fmt(v: f64) -> String {
    if v == 0.0 {
        "0".to_string()
    } else {
        format!("{}", v)
    }
}

fn fmt_axis(v: f64, style: usize) -> String {
    match style {
        0 => format!("{:.1}", v),
        1 => format!("{:.3}", v),
        2 => format!("{:e}", v),
        _ => fmt(v),
    }
}

fn gen_urdf(rng: &mut Rng) -> Gen {
    let mut features = vec![];
    let z = |rng: &mut Rng, v: f64| if rng.bool(0.25) { 0.0 } else { v };
    let a1v = mm(rng, -0.3, 0.5);
    let a1 = z(rng, a1v);
    let mut a2 = mm(rng, -0.3, 0.3);
    let bv = mm(rng, -0.2, 0.2);
    let b = if rng.bool(0.5) { 0.0 } else { bv };
    let c1v = mm(rng, 0.1, 1.0);
    let c1 = z(rng, c1v);
    // (an eighth of the link lengths c2 / c3 is negative: the same layouts drawn towards the other side)
    let c2 = mm(rng, 0.2, 1.0).max(0.001) * if rng.bool(0.125) { -1.0 } else { 1.0 };
    let c3 = mm(rng, 0.2, 1.0).max(0.001) * if rng.bool(0.125) { -1.0 } else { 1.0 };
    let negative_c = c2 < 0.0 || c3 < 0.0;
    let c4v = mm(rng, 0.02, 0.4);
    let c4 = z(rng, c4v);
    let c3_on_j4 = rng.bool(0.4);
    if c3_on_j4 {
        features.push("c3_on_joint4".to_string());
        if a2 == 0.0 {
            a2 = 0.025;
        }
    } else {
        features.push("c3_on_joint5".to_string());
        if rng.bool(0.2) {
            a2 = 0.0;
        }
    }
    let c2_on_x = rng.bool(0.4);
    features.push(if c2_on_x { "c2_on_x" } else { "c2_on_z" }.to_string());
    if b != 0.0 {
        features.push("b_nonzero".to_string());
    }
    // origins
    let o1 = [0.0, 0.0, c1];
    let o2 = [a1, 0.0, 0.0];
    let o3 = if c2_on_x { [c2, b, 0.0] } else { [0.0, b, c2] };
    let o4 = if c3_on_j4 { if rng.bool(0.5) { [c3, 0.0, -a2] } else { [0.0, c3, -a2] } } else { [0.0, 0.0, -a2] };
    let o5 = if c3_on_j4 { [0.0, 0.0, 0.0] } else if rng.bool(0.5) { [c3, 0.0, 0.0] } else { [0.0, 0.0, c3] };
    let o6 = if rng.bool(0.5) { [c4, 0.0, 0.0] } else { [0.0, 0.0, c4] };
    let origins = [o1, o2, o3, o4, o5, o6];
    let axis_comp = [2usize, 1, 1, if rng.bool(0.5) { 0 } else { 2 }, 1, if rng.bool(0.5) { 0 } else { 2 }];
    let mut signs = [1i8; 6];
    let mut from = [0.0; 6];
    let mut to = [0.0; 6];
    let mut limited = [true; 6];
    // names
    let explicit = rng.bool(0.3);
    let style = rng.usize(6);
    // (incl. non-ASCII letters whose lower-case form has another UTF-8 length: dotted capital I, Kelvin and Ohm signs)
    let prefix = *rng.pick(&["", "${prefix}", "left_", "robot1_", "R_", "my-arm.", "kuka_", "left_arm_", "${prefix}arm_", "\u{130}_", "\u{212A}UKA_", "\u{2126}_", "Äußerer_", "БОТ_", "\u{130}\u{130}\u{212A}"]);
    let tcp_name = explicit && rng.bool(0.3);
    let names: [String; 6] = std::array::from_fn(|j| {
        if explicit {
            if j == 5 && tcp_name {
                "tool_center_point".to_string()
            } else {
                match style % 3 {
                    0 => format!("lf_joint_{}", j),
                    1 => format!("axis{}_rot", j + 1),
                    _ => format!("J{}", j + 1),
                }
            }
        } else {
            match style {
                0 => format!("{}joint{}", prefix, j + 1),
                1 => format!("{}joint_{}", prefix, j + 1),
                2 => format!("{}JOINT_{}", prefix, j + 1),
                // KUKA style decoration; the prefix may contain the decoration letter itself
                3 => format!("{}joint_a{}", prefix, j + 1),
                4 => format!("{}Joint-{}", prefix, j + 1),
                _ => format!("{}joint_{}!", prefix, j + 1),
            }
        }
    });
    if explicit {
        features.push(if tcp_name { "explicit_names_with_tcp" } else { "explicit_names" }.to_string());
    } else {
        features.push(format!("name_style_{}", style));
    }
    let mut joint_xml: Vec<String> = vec![];
    for j in 0..6 {
        if rng.bool(0.4) {
            signs[j] = -1;
        }
        let mut ax = [0.0f64; 3];
        ax[axis_comp[j]] = signs[j] as f64;
        // axis components are written as integers ("0 0 1") or as reals ("0.0 0.0 1.0", "-1.000", "1e0")
        let axis_style = rng.usize(5);
        let lim_kind = rng.usize(5);
        let limit_xml = match lim_kind {
            0 => {
                limited[j] = false;
                String::new()
            }
            // the usual form of a continuous joint: a <limit> element that carries effort / velocity only
            4 => {
                limited[j] = false;
                if !features.iter().any(|f| f == "limit_without_bounds") {
                    features.push("limit_without_bounds".to_string());
                }
                (*rng.pick(&["      <limit effort=\"0\" velocity=\"10\"/>\n", "      <limit velocity=\"3.14\"/>\n", "      <limit effort=\"12\" velocity=\"${radians(360)}\"/>\n"])).to_string()
            }
            1 => {
                let lo = -(rng.int(10, 720) as f64);
                let hi = rng.int(10, 720) as f64;
                from[j] = lo.to_radians();
                to[j] = hi.to_radians();
                format!("      <limit lower=\"${{radians({})}}\" upper=\"${{radians({})}}\" effort=\"0\" velocity=\"${{radians(360)}}\"/>\n", lo as i64, hi as i64)
            }
            2 => {
                let lo = -(rng.int(100, 7200) as f64) / 10.0;
                let hi = (rng.int(100, 7200) as f64) / 10.0;
                from[j] = lo.to_radians();
                to[j] = hi.to_radians();
                format!("      <limit lower=\"${{radians({:.1})}}\" upper=\"${{radians({:.1})}}\" effort=\"12.5\" velocity=\"3\"/>\n", lo, hi)
            }
            _ => {
                let lo = -((rng.range(0.2, 12.5) * 1e4).round() / 1e4);
                let hi = (rng.range(0.2, 12.5) * 1e4).round() / 1e4;
                from[j] = lo;
                to[j] = hi;
                // (a third of these limits mixes the two syntaxes: one bound in radians, the other as ${radians(deg)})
                match rng.usize(6) {
                    0 => {
                        let d = -(rng.int(10, 720) as f64);
                        from[j] = d.to_radians();
                        format!("      <limit lower=\"${{radians({})}}\" upper=\"{}\" effort=\"0\" velocity=\"3.67\"/>\n", d as i64, hi)
                    }
                    1 => {
                        let d = rng.int(10, 720) as f64;
                        to[j] = d.to_radians();
                        format!("      <limit lower=\"{}\" upper=\"${{radians({})}}\" effort=\"0\" velocity=\"3.67\"/>\n", lo, d as i64)
                    }
                    _ => format!("      <limit lower=\"{}\" upper=\"{}\" effort=\"0\" velocity=\"3.67\"/>\n", lo, hi),
                }
            }
        };
        let o = origins[j];
        let jtype = if !limited[j] { "continuous" } else { "revolute" };
        // the children of a joint element come in any order (origin / parent / child / axis / limit)
        let mut children: Vec<String> = vec![
            format!("      <origin xyz=\"{} {} {}\" rpy=\"0 0 0\"/>\n", fmt(o[0]), fmt(o[1]), fmt(o[2])),
            format!("      <parent link=\"l{}\"/>\n", j),
            format!("      <child link=\"l{}\"/>\n", j + 1),
            format!("      <axis xyz=\"{} {} {}\"/>\n", fmt_axis(ax[0], axis_style), fmt_axis(ax[1], axis_style), fmt_axis(ax[2], axis_style)),
        ];
        if !limit_xml.is_empty() {
            children.push(limit_xml.clone());
        }
        if rng.bool(0.4) {
            for i in (1..children.len()).rev() {
                children.swap(i, rng.usize(i + 1));
            }
            if !features.iter().any(|f| f == "shuffled_child_elements") {
                features.push("shuffled_child_elements".to_string());
            }
        }
        joint_xml.push(format!("    <joint name=\"{}\" type=\"{}\">\n{}    </joint>\n", names[j], jtype, children.concat()));
    }
    // extra fixed joints that must be ignored
    let mut extras = vec![];
    if rng.bool(0.6) {
        features.push("extra_fixed_joints".to_string());
        extras.push(format!("    <joint name=\"{}base_link-base\" type=\"fixed\">\n      <origin xyz=\"0 0 0.5\" rpy=\"0 0 0\"/>\n      <parent link=\"b\"/>\n      <child link=\"l0\"/>\n    </joint>\n", prefix));
        extras.push(format!("    <joint name=\"{}flange-tool0\" type=\"fixed\">\n      <parent link=\"l6\"/>\n      <child link=\"tool0\"/>\n      <origin xyz=\"0.1 0.2 0.3\" rpy=\"0 1.57 0\"/>\n    </joint>\n", prefix));
    }
    // identical second copy
    let mut blocks: Vec<String> = joint_xml.clone();
    if !explicit && rng.bool(0.3) {
        features.push("identical_second_copy".to_string());
        let other = if prefix == "left_" { "right_" } else { "second_" };
        for jx in &joint_xml {
            // the copy differs only in its name prefix, which the name simplification removes
            let renamed = if prefix.is_empty() { jx.replacen("name=\"", &format!("name=\"{}", other), 1) } else { jx.replacen(prefix, other, 1) };
            blocks.push(renamed);
        }
    }
    if explicit && rng.bool(0.4) {
        // a different robot with other names and other data must not disturb an explicit list
        features.push("foreign_robot_present".to_string());
        for j in 0..6 {
            blocks.push(format!("    <joint name=\"right_joint_{}\" type=\"revolute\">\n      <origin xyz=\"0.7 0 0.9\" rpy=\"0 0 0\"/>\n      <axis xyz=\"0 0 1\"/>\n      <limit lower=\"-1\" upper=\"1\" effort=\"0\" velocity=\"1\"/>\n    </joint>\n", j));
        }
    }
    blocks.extend(extras);
    // shuffle declaration order
    if rng.bool(0.7) {
        features.push("shuffled_order".to_string());
        for i in (1..blocks.len()).rev() {
            blocks.swap(i, rng.usize(i + 1));
        }
    }
    // nesting
    let depth = rng.usize(4);
    features.push(format!("nesting_depth_{}", depth));
    let mut body = String::new();
    let mut open = vec![];
    for d in 0..depth {
        let tag = if d == 0 && rng.bool(0.5) { "xacro:macro name=\"robot\" params=\"prefix\"" } else { "group" };
        body.push_str(&format!("  <{}>\n", tag));
        open.push(tag.split(' ').next().unwrap().to_string());
    }
    // a quarter of the documents puts SOME of the blocks into an extra wrapper of their own (joints at different depths:
    // a fixed mounting joint next to the wrapped robot, wrist joints grouped separately)
    let uneven = rng.bool(0.25);
    if uneven {
        features.push("joints_at_different_depths".to_string());
    }
    for (i, bl) in blocks.iter().enumerate() {
        if uneven && rng.bool(0.4) {
            body.push_str("    <group>\n");
            body.push_str(bl);
            body.push_str("    </group>\n");
            continue;
        }
        body.push_str(bl);
        if i % 3 == 0 {
            body.push_str(&format!("    <link name=\"l{}\"><visual><origin xyz=\"9 9 9\" rpy=\"0 0 0\"/></visual></link>\n", i));
        }
    }
    for t in open.iter().rev() {
        body.push_str(&format!("  </{}>\n", t));
    }
    let text = format!("<?xml version=\"1.0\"?>\n<robot name=\"generated\" xmlns:xacro=\"http://ros.org/wiki/xacro\">\n  <!-- generated by the C20 monitor -->\n{}</robot>\n", body);
    if negative_c {
        features.push("negative_c2_or_c3".to_string());
    }
    Gen { a1, a2, b, c1, c2, c3, c4, signs, from, to, limited, names, explicit, text, features }
}

fn run_case(kind: &str, idx: u64, rng: &mut Rng, mon: &mut Mon, _tier: Tier) {
    match kind {
        "extract" => extract(idx, rng, mon),
        "errors" => errors(idx, rng, mon),
        _ => mutants(idx, rng, mon),
    }
}

fn call(g: &Gen, text: &str) -> Result<Result<rs_opw_kinematics::urdf::URDFParameters, String>, String> {
    let names: Option<[&str; 6]> = if g.explicit { Some(std::array::from_fn(|j| g.names[j].as_str())) } else { None };
    let t = text.to_string();
    guarded(move || from_urdf(t, &names).map_err(|e| e.to_string()))
}

fn extract(idx: u64, rng: &mut Rng, mon: &mut Mon) {
    let g = gen_urdf(rng);
    for f in &g.features {
        mon.count(&format!("extract.feature.{}", f));
    }
    let detail = |extra: serde_json::Value| json!({"urdf": g.text, "features": g.features, "names": g.names, "explicit_names": g.explicit,
        "generator": {"a1": g.a1, "a2": g.a2, "b": g.b, "c1": g.c1, "c2": g.c2, "c3": g.c3, "c4": g.c4, "signs": g.signs, "from": jf(&g.from), "to": jf(&g.to), "limited": g.limited}, "extra": extra});
    let layout = format!("{}:{}", g.features[0], g.features[1]);
    // History: the same document is also read with an explicit list of its raw joint names, before or
    // after the automatic reading, on the same thread. Neither reading may influence the other.
    let cross = !g.explicit && rng.bool(0.5);
    let cross_first = rng.bool(0.5);
    let cross_check = |mon: &mut Mon, when: &str| {
        let names: Option<[&str; 6]> = Some(std::array::from_fn(|j| g.names[j].as_str()));
        let t = g.text.clone();
        mon.count("extract.cross_mode_readings");
        match guarded(move || from_urdf(t, &names).map_err(|e| e.to_string())) {
            Err(msg) => mon.violation("extract:history:panic", "from_urdf with an explicit list of the raw joint names panicked", detail(json!({"when": when, "panic": msg}))),
            Ok(Err(e)) => mon.violation(&format!("extract:history:explicit-raw-names-rejected:{}", when), "the document was rejected when read with an explicit list of its own raw joint names", detail(json!({"when": when, "error": e}))),
            Ok(Ok(p)) => {
                let same = [(g.a1, p.a1), (g.a2, p.a2), (g.b, p.b), (g.c1, p.c1), (g.c2, p.c2), (g.c3, p.c3), (g.c4, p.c4)].iter().all(|(x, y)| (x - y).abs() <= 1e-12) && g.signs == p.sign_corrections;
                if !same {
                    mon.violation(&format!("extract:history:explicit-raw-names-differ:{}", when), "reading with an explicit list of the raw joint names gives other parameters", detail(json!({"when": when})));
                } else {
                    mon.held();
                }
            }
        }
    };
    if cross && cross_first {
        cross_check(mon, "before-automatic");
    }
    let p = match call(&g, &g.text) {
        Err(msg) => {
            mon.violation("extract:panic", "from_urdf panicked on a valid generated robot description", detail(json!({"panic": msg})));
            return;
        }
        Ok(Err(e)) => {
            let naming = if g.explicit { "explicit".to_string() } else { g.features.iter().find(|f| f.starts_with("name_style")).cloned().unwrap_or_default() };
            mon.violation(&format!("extract:rejected:{}:{}", layout, naming), "a valid generated robot description was rejected", detail(json!({"error": e})));
            return;
        }
        Ok(Ok(p)) => p,
    };
    mon.count("extract.ok");
    if cross && !cross_first {
        cross_check(mon, "after-automatic");
    }
    mon.seen("dof_reported_for_tcp_lists", format!("{}:{}", g.features.iter().any(|f| f == "explicit_names_with_tcp"), p.dof));
    let mut diffs: Vec<String> = vec![];
    for (n, x, y) in [("a1", g.a1, p.a1), ("a2", g.a2, p.a2), ("b", g.b, p.b), ("c1", g.c1, p.c1), ("c2", g.c2, p.c2), ("c3", g.c3, p.c3), ("c4", g.c4, p.c4)] {
        if !((x - y).abs() <= 1e-12) {
            diffs.push(n.to_string());
        }
    }
    if g.signs != p.sign_corrections {
        diffs.push("signs".into());
    }
    for j in 0..6 {
        if !((g.from[j] - p.from[j]).abs() <= 1e-12 && (g.to[j] - p.to[j]).abs() <= 1e-12) {
            diffs.push("limits".to_string());
            break;
        }
    }
    if !diffs.is_empty() {
        mon.violation(&format!("extract:wrong-{}:{}", diffs[0], layout), "extracted values differ from the generating OPW parameters", detail(json!({"wrong": diffs, "extracted": {"a1": p.a1, "a2": p.a2, "b": p.b, "c1": p.c1, "c2": p.c2, "c3": p.c3, "c4": p.c4, "signs": p.sign_corrections, "from": jf(&p.from), "to": jf(&p.to), "dof": p.dof}})));
    } else {
        mon.held();
        mon.nontrivial(crate::rng::hash_str(&g.text));
    }
    // parameters() and the solver returned by to_robot() carry the extracted geometry and signs: its forward kinematics
    // is the reference chain of the generating parameters
    {
        let params = p.parameters(&[0.0; 6]);
        let rp = crate::refmodel::RParams { a1: g.a1, a2: g.a2, b: g.b, c1: g.c1, c2: g.c2, c3: g.c3, c4: g.c4, offsets: [0.0; 6], signs: g.signs, dof: 6 };
        let same = [(g.a1, params.a1), (g.a2, params.a2), (g.b, params.b), (g.c1, params.c1), (g.c2, params.c2), (g.c3, params.c3), (g.c4, params.c4)].iter().all(|(x, y)| (x - y).abs() <= 1e-12) && params.sign_corrections == g.signs;
        let robot = p.to_robot(0.0, &[0.0; 6]);
        let q = crate::gen::joints_uniform(rng, PI);
        let want = crate::refmodel::fk(&rp, &q);
        let got = crate::gen::iso_to_fr(&robot.forward(&q));
        let fk_ok = crate::refmodel::pos_dist(&got, &want) <= 1e-9 * (1.0 + rp.reach()) && crate::refmodel::rot_angle(&got.r, &want.r) <= 1e-9;
        mon.count("extract.solver_forward_checked");
        if !same || !fk_ok {
            mon.violation(if !same { "extract:parameters()-differ-from-the-extraction" } else { "extract:solver-forward-differs-from-the-generating-chain" }, "parameters() / to_robot() do not carry the extracted geometry", detail(json!({"q": jf(&q), "parameters_b": params.b, "position_error": crate::refmodel::pos_dist(&got, &want)})));
        } else {
            mon.held();
        }
    }
    // the solver built from the extraction judges angles by the generator's arcs (limited joints) and accepts
    // everything on unlimited ones
    {
        let robot = p.to_robot(0.0, &[0.0; 6]);
        if let Some(c) = robot.constraints() {
            for _ in 0..6 {
                let ang: [f64; 6] = std::array::from_fn(|_| rng.range(-2.0 * PI, 2.0 * PI));
                let mut expect = true;
                let mut conclusive = true;
                for j in 0..6 {
                    if g.limited[j] {
                        let (v, d) = crate::refmodel::arc_contains(g.from[j], g.to[j], ang[j]);
                        if v.is_none() || d < 1e-9 {
                            conclusive = false;
                        }
                        expect &= v.unwrap_or(true);
                    }
                }
                if !conclusive {
                    continue;
                }
                mon.count("extract.solver_limit_verdicts");
                if c.compliant(&ang) != expect {
                    mon.violation(if expect { "extract:solver-rejects-angle-inside-the-limits" } else { "extract:solver-accepts-angle-outside-the-limits" }, "the solver built from the extraction does not judge angles by the limits of the description", detail(json!({"angles": jf(&ang), "expected": expect, "constraints_from": jf(&c.from), "constraints_to": jf(&c.to)})));
                    break;
                } else {
                    mon.held();
                }
            }
        }
    }
    // a joint without <limit> is an unconstrained joint of the resulting solver
    if g.limited.iter().any(|l| !l) {
        let robot = p.to_robot(0.0, &[0.0; 6]);
        if let Some(c) = robot.constraints() {
            let mut ang = c.centers;
            let mut ok_base = true;
            for j in 0..6 {
                if g.limited[j] {
                    ang[j] = (g.from[j] + g.to[j]) / 2.0;
                }
            }
            for j in 0..6 {
                if !g.limited[j] {
                    for v in [rng.range(-2.0 * PI, 2.0 * PI), PI, -3.0, 0.0, 100.0] {
                        let mut a = ang;
                        a[j] = v;
                        if !c.compliant(&a) {
                            ok_base = false;
                        }
                    }
                }
            }
            mon.count("extract.unlimited_joints_checked");
            if !ok_base {
                mon.violation("extract:unlimited-joint-is-constrained", "a joint declared without <limit> does not accept every angle in the solver returned by to_robot", detail(json!({"constraints_from": jf(&c.from), "constraints_to": jf(&c.to)})));
            } else {
                mon.held();
            }
        } else {
            mon.violation("extract:no-constraints", "to_robot returned a solver without constraints", detail(json!({})));
        }
    }
    if idx < 1 {
        mon.sample(json!({"kind": "extract", "urdf": g.text, "features": g.features}));
    }
}

fn errors(idx: u64, rng: &mut Rng, mon: &mut Mon) {
    let g = gen_urdf(rng);
    let kind = rng.usize(4);
    let kname = ["missing_joint", "conflicting_duplicate", "malformed_xml", "malformed_xyz"][kind];
    let text = match kind {
        0 => {
            // drop every declaration of one joint
            let j = rng.usize(6);
            // the name from the word 'joint' on: also removes the same joint of an identical second copy
            // (searched on the original string: lower-casing may change byte offsets of non-ASCII prefixes)
            let pos = g.names[j].char_indices().map(|(i, _)| i).filter(|i| g.names[j][*i..].to_lowercase().starts_with("joint")).last();
            let tail = match pos {
                Some(pos) if !g.explicit => g.names[j][pos..].to_string(),
                _ => g.names[j].clone(),
            };
            let mut out = String::new();
            let mut skipping = false;
            for line in g.text.lines() {
                if line.contains("<joint name=") && line.contains(&format!("{}\"", tail)) {
                    skipping = true;
                }
                if !skipping {
                    out.push_str(line);
                    out.push('\n');
                }
                if skipping && line.contains("</joint>") {
                    skipping = false;
                }
            }
            out
        }
        1 => {
            // a second declaration of joint k with a different origin
            let j = rng.usize(6);
            let dup = format!("    <joint name=\"{}\" type=\"revolute\">\n      <origin xyz=\"0.123 0 0\" rpy=\"0 0 0\"/>\n      <axis xyz=\"0 0 1\"/>\n      <limit lower=\"-0.5\" upper=\"0.5\" effort=\"0\" velocity=\"1\"/>\n    </joint>\n", g.names[j]);
            g.text.replacen("</robot>", &format!("{}</robot>", dup), 1)
        }
        2 => match rng.usize(3) {
            0 => g.text.replacen("</joint>", "</joint", 1),
            1 => {
                let mut cut = g.text.len() * 2 / 3;
                while !g.text.is_char_boundary(cut) {
                    cut -= 1;
                }
                g.text[..cut].to_string()
            }
            _ => g.text.replacen("<origin", "<origin <", 1),
        },
        _ => {
            let j = rng.usize(6);
            let marker = format!("<joint name=\"{}\"", g.names[j]);
            match g.text.find(&marker) {
                Some(pos) => {
                    let rest = &g.text[pos..];
                    // (the origin's xyz, wherever the origin element stands among the children)
                    let o = rest.find("<origin xyz=\"").unwrap() + pos + 13;
                    let end = g.text[o..].find('"').unwrap() + o;
                    let bad = *rng.pick(&["0 0", "a b c", "0 0 0 0", "1,2,3", ""]);
                    format!("{}{}{}", &g.text[..o], bad, &g.text[end..])
                }
                None => g.text.replacen("</robot>", "<robot>", 1),
            }
        }
    };
    mon.count(&format!("errors.kind.{}", kname));
    match call(&g, &text) {
        Err(msg) => mon.violation(&format!("errors:panic:{}", kname), "from_urdf panicked on a faulty description", json!({"kind": kname, "urdf": text, "panic": msg})),
        Ok(Ok(_)) => mon.violation(&format!("errors:accepted:{}", kname), "a faulty robot description was accepted", json!({"kind": kname, "urdf": text, "names": g.names})),
        Ok(Err(_)) => {
            mon.held();
            mon.count("errors.rejected");
            mon.nontrivial(crate::rng::hash_str(&text));
        }
    }
    if idx < 1 {
        mon.sample(json!({"kind": "errors", "fault": kname}));
    }
}

fn mutants(idx: u64, rng: &mut Rng, mon: &mut Mon) {
    let g = gen_urdf(rng);
    let mut bytes = g.text.clone().into_bytes();
    let mk = rng.usize(6);
    let mname = ["truncate", "delete_line", "duplicate_line", "random_bytes", "attribute_garbage", "empty"][mk];
    match mk {
        0 => {
            let n = rng.usize(bytes.len());
            bytes.truncate(n);
        }
        1 | 2 => {
            let mut lines: Vec<&str> = g.text.lines().collect();
            let k = rng.usize(lines.len());
            if mk == 1 {
                lines.remove(k);
            } else {
                let l = lines[k];
                lines.insert(k, l);
            }
            bytes = lines.join("\n").into_bytes();
        }
        3 => {
            for _ in 0..(1 + rng.usize(6)) {
                let pos = rng.usize(bytes.len() + 1);
                bytes.insert(pos, *rng.pick(&[b'<', b'>', b'"', b'&', b'/', b'=', b' ', b'$', b'{', b'}', b'\n', 0xc3, b'!']));
            }
        }
        4 => {
            // (incl. vectors with too few / too many numbers)
            let repl = *rng.pick(&["", "NaN NaN NaN", "${radians(x)}", "${radians(1e3)}", "1e999", "- - -", "inf", "0 0 0 ", "\u{00e9}", "0 -1", "1", "0 0 0 0 1", " "]);
            let t = g.text.clone();
            let cands: Vec<usize> = t.match_indices("=\"").map(|(i, _)| i + 2).collect();
            let o = cands[rng.usize(cands.len())];
            let end = t[o..].find('"').unwrap() + o;
            bytes = format!("{}{}{}", &t[..o], repl, &t[end..]).into_bytes();
        }
        _ => bytes.clear(),
    }
    let text = String::from_utf8_lossy(&bytes).to_string();
    mon.count(&format!("mutants.kind.{}", mname));
    match call(&g, &text) {
        Err(msg) => {
            let at = msg.rsplit(" @ ").next().unwrap_or("?").to_string();
            mon.violation(&format!("mutants:panic:{}:{}", mname, at), "from_urdf panicked on a malformed file", json!({"mutation": mname, "urdf": text, "panic": msg}));
        }
        Ok(r) => {
            mon.held();
            mon.count(if r.is_ok() { "mutants.parsed_ok" } else { "mutants.returned_err" });
            mon.nontrivial(crate::rng::hash_str(&text));
        }
    }
    if idx < 1 {
        mon.sample(json!({"kind": "mutants", "mutation": mname}));
    }
}
