//! Shared helpers for the IK monitors: entry points, pose / previous generators.

use crate::gen::*;
use crate::refmodel::*;
use crate::report::guarded;
use crate::rng::Rng;
use rs_opw_kinematics::kinematic_traits::{Kinematics, Solutions, CONSTRAINT_CENTERED};
use std::f64::consts::PI;

#[derive(Clone, Copy, PartialEq, Debug)]
pub enum Entry {
    Inverse,
    Continuing,
    FiveDof,
    Continuing5,
}
pub const ENTRIES: [Entry; 4] = [Entry::Inverse, Entry::Continuing, Entry::FiveDof, Entry::Continuing5];

impl Entry {
    pub fn name(&self) -> &'static str {
        match self {
            Entry::Inverse => "inverse",
            Entry::Continuing => "inverse_continuing",
            Entry::FiveDof => "inverse_5dof",
            Entry::Continuing5 => "inverse_continuing_5dof",
        }
    }
    pub fn is_5dof(&self) -> bool {
        matches!(self, Entry::FiveDof | Entry::Continuing5)
    }
    pub fn is_continuing(&self) -> bool {
        matches!(self, Entry::Continuing | Entry::Continuing5)
    }
}

pub fn call(kin: &dyn Kinematics, e: Entry, pose: &Iso, prev: &[f64; 6], j6: f64) -> Result<Solutions, String> {
    guarded(|| match e {
        Entry::Inverse => kin.inverse(pose),
        Entry::Continuing => kin.inverse_continuing(pose, prev),
        Entry::FiveDof => kin.inverse_5dof(pose, j6),
        Entry::Continuing5 => kin.inverse_continuing_5dof(pose, prev),
    })
}

pub struct GenPose {
    pub iso: Iso,
    pub class: &'static str,
    /// joint vector that produced the pose (if any)
    pub q: Option<[f64; 6]>,
    /// the pose is a proper SE(3) element with finite components
    pub proper: bool,
}

/// q5 such that the model angle t5 = k*pi + delta
pub fn place_t5(rp: &RParams, q: &mut [f64; 6], k: i32, delta: f64) {
    let t5 = k as f64 * PI + delta;
    if rp.signs[4] != 0 {
        q[4] = (t5 + rp.offsets[4]) * rp.signs[4] as f64;
    }
}

pub fn gen_pose(rng: &mut Rng, rp: &RParams, class: usize) -> GenPose {
    let reach = rp.reach().max(1e-9);
    match class {
        // reachable by construction
        0 => {
            // (a fifth of the generating vectors has joints resting at zero or at a micro- / nanoradian value)
            let q = if rng.bool(0.2) { joints_resting(rng, PI) } else { joints_uniform(rng, PI) };
            GenPose { iso: fr_to_iso(&fk(rp, &q)), class: "reachable", q: Some(q), proper: true }
        }
        // random SE(3) in a ball of 1.5 x reach
        1 => {
            let r = 1.5 * reach;
            let f = Fr { r: random_rotation(rng), p: [rng.range(-r, r), rng.range(-r, r), rng.range(-r, r)] };
            GenPose { iso: fr_to_iso(&f), class: "random_se3", q: None, proper: true }
        }
        // reach boundary: elbow stretched, pose pushed in/out by a tiny amount
        2 => {
            let mut q = joints_uniform(rng, PI);
            let t3 = -rp.psi3() + if rng.bool(0.5) { 0.0 } else { PI };
            if rp.signs[2] != 0 {
                q[2] = (t3 + rp.offsets[2]) * rp.signs[2] as f64;
            }
            let fr = chain(rp, &q);
            let wc = fr[4].p;
            let o2 = fr[1].p;
            let d = sub(wc, o2);
            let n = norm(d);
            let dir = if n > 1e-12 { scale(d, 1.0 / n) } else { [0.0, 0.0, 1.0] };
            let delta = rng.sign() * *rng.pick(&[0.0, 1e-12, 1e-9, 1e-7, 1e-6, 1e-5, 1e-3]);
            let mut f = fr[5];
            f.p = add(f.p, scale(dir, delta));
            GenPose { iso: fr_to_iso(&f), class: "reach_boundary", q: if delta == 0.0 { Some(q) } else { None }, proper: true }
        }
        // wrist centre on (or at distance |b| of) the J1 axis
        3 => {
            let r = random_rotation(rng);
            let phi = rng.range(-PI, PI);
            let rad = *rng.pick(&[0.0, rp.b.abs(), rp.b.abs() * (1.0 + 1e-12), rp.b.abs() + 1e-9, 1e-12]);
            let wc = [rad * phi.cos(), rad * phi.sin(), rp.c1 + rng.range(-1.0, 1.0) * (rp.c2.abs() + rp.kappa())];
            let p = add(wc, scale(col(&r, 2), rp.c4));
            GenPose { iso: fr_to_iso(&Fr { r, p }), class: "wc_on_axis1", q: None, proper: true }
        }
        // wrist singular: t5 = k*pi + delta
        4 => {
            let mut q = joints_uniform(rng, PI);
            let k = rng.int(-1, 1) as i32;
            let delta = rng.sign() * *rng.pick(&[0.0, 1e-12, 1e-9, 1e-7, 1e-5, 1e-4, 2e-4]);
            place_t5(rp, &mut q, k, delta);
            GenPose { iso: fr_to_iso(&fk(rp, &q)), class: "wrist_singular", q: Some(q), proper: true }
        }
        // hostile: NaN / inf / non-unit quaternion
        _ => {
            let q = joints_uniform(rng, PI);
            let f = fk(rp, &q);
            let base = fr_to_iso(&f);
            let qn = base.rotation.quaternion();
            let (mut w, mut i, mut j, mut k) = (qn.w, qn.i, qn.j, qn.k);
            let (mut x, mut y, mut z) = (f.p[0], f.p[1], f.p[2]);
            let bad = *rng.pick(&[f64::NAN, f64::INFINITY, f64::NEG_INFINITY, 1e300, -1e300]);
            match rng.usize(8) {
                0 => x = bad,
                1 => y = bad,
                2 => z = bad,
                3 => w = f64::NAN,
                4 => {
                    w = 0.0;
                    i = 0.0;
                    j = 0.0;
                    k = 0.0;
                }
                5 => {
                    let s = rng.logu(1e-3, 1e3);
                    w *= s;
                    i *= s;
                    j *= s;
                    k *= s;
                }
                6 => i = f64::INFINITY,
                _ => {
                    x = bad;
                    k = f64::NAN;
                }
            }
            GenPose { iso: iso_unchecked(w, i, j, k, x, y, z), class: "hostile", q: None, proper: false }
        }
    }
}

/// previous-vector classes
pub fn gen_prev(rng: &mut Rng, q: Option<&[f64; 6]>, class: usize) -> ([f64; 6], &'static str) {
    match class {
        0 => match q {
            Some(q) => (*q, "generating"),
            None => (joints_uniform(rng, PI), "uniform_pi"),
        },
        1 => match q {
            Some(q) => {
                let mut p = *q;
                for j in 0..6 {
                    p[j] += 2.0 * PI * rng.int(-1, 1) as f64;
                }
                (p, "generating_shifted")
            }
            None => (joints_uniform(rng, 2.0 * PI), "uniform_2pi"),
        },
        2 => (joints_uniform(rng, 2.0 * PI), "uniform_2pi"),
        3 => (joints_uniform(rng, 100.0 * PI), "far_outside"),
        4 => (CONSTRAINT_CENTERED, "sentinel"),
        // the generating vector with rounding-sized noise (a slow trajectory feeding each answer back), or
        // with single joints replaced by exact zeros
        6 => match q {
            Some(q) => {
                let mut p = *q;
                for j in 0..6 {
                    p[j] += rng.sign() * rng.logu(1e-9, 1e-4);
                }
                (p, "generating_tiny_noise")
            }
            None => (joints_uniform(rng, PI), "uniform_pi"),
        },
        7 => match q {
            Some(q) => {
                let mut p = *q;
                for j in 0..6 {
                    if rng.bool(0.4) {
                        p[j] = if rng.bool(0.5) { 0.0 } else { -0.0 };
                    }
                }
                (p, "generating_with_zeros")
            }
            None => ([0.0; 6], "zeros"),
        },
        // Non-finite previous vectors are NOT generated: they are outside the property's quantifier
        // (probe: +-inf in previous[J4]/[J6] makes the wrapping `while` loop at kinematics_impl.rs:126-131
        // spin forever, NaN there is passed through compare_poses; both are garbage-in cases).
        _ => match q {
            Some(q) => {
                let mut p = *q;
                for j in 0..6 {
                    p[j] += rng.range(-0.05, 0.05);
                }
                (p, "generating_noisy")
            }
            None => (joints_uniform(rng, PI), "uniform_pi"),
        },
    }
}
