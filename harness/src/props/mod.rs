use crate::gen::Robot;
use crate::Prop;
use serde_json::{json, Value};

pub mod c01;
pub mod c02;
pub mod c03;
pub mod c04;
pub mod c05;
pub mod c06;
pub mod stack;
pub mod c07;
pub mod c08;
pub mod c09;
pub mod c10;
pub mod c11;
pub mod c12;
pub mod c13;
pub mod c14;
pub mod c15;
pub mod c16;
pub mod c17;
pub mod c18;
pub mod c19;
pub mod c20;
pub mod ik;

pub fn registry() -> Vec<Prop> {
    vec![c01::prop(), c02::prop(), c03::prop(), c04::prop(), c05::prop(), c06::prop(), c07::prop(), c08::prop(), c09::prop(), c10::prop(), c11::prop(), c12::prop(), c13::prop(), c14::prop(), c15::prop(), c16::prop(), c17::prop(), c18::prop(), c19::prop(), c20::prop()]
}

pub fn child(args: &[String]) -> i32 {
    match args.get(0).map(|s| s.as_str()) {
        Some("c10debug") => c10::debug(args[1].parse().unwrap(), args[2].parse().unwrap()),
        Some("c10parry") => c10::debug_parry(),
        Some("c05debug") => c05::debug(&args[1]),
        Some("c05debug2") => c05::debug2(&args[1]),
        Some("robotdebug") => c05::debug3(&args[1]),
        Some("c10tri") => c10::debug_tri(),
        Some("c10scale") => c10::debug_scale(),
        _ => 2,
    }
}

pub fn robot_json(r: &Robot) -> Value {
    let p = &r.rp;
    json!({"class": r.class, "a1": p.a1, "a2": p.a2, "b": p.b, "c1": p.c1, "c2": p.c2, "c3": p.c3, "c4": p.c4,
           "offsets": p.offsets, "signs": p.signs, "dof": p.dof, "offset_class": r.offset_class})
}

pub fn robot_hash(r: &Robot) -> u64 {
    let p = &r.rp;
    let mut v = vec![p.a1, p.a2, p.b, p.c1, p.c2, p.c3, p.c4, p.dof as f64];
    v.extend_from_slice(&p.offsets);
    v.extend(p.signs.iter().map(|s| *s as f64));
    crate::report::hash_f64s(&v)
}
