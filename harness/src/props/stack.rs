//! Wrapper stacks (Tool / Base / Frame / Parallelogram) built with the library, and their
//! reference composition in plain matrices.

use crate::gen::*;
use crate::refmodel::*;
use crate::rng::Rng;
use rs_opw_kinematics::frame::Frame;
use rs_opw_kinematics::kinematic_traits::Kinematics;
use rs_opw_kinematics::parallelogram::Parallelogram;
use rs_opw_kinematics::tool::{Base, Tool};
use serde_json::{json, Value};
use std::sync::Arc;

#[derive(Clone, Copy, Debug)]
pub enum Layer {
    Tool(Fr),
    Base(Fr),
    Frame(Fr),
    Para { driven: usize, coupled: usize, scaling: f64 },
}

impl Layer {
    pub fn name(&self) -> &'static str {
        match self {
            Layer::Tool(_) => "Tool",
            Layer::Base(_) => "Base",
            Layer::Frame(_) => "Frame",
            Layer::Para { .. } => "Parallelogram",
        }
    }
    pub fn json(&self) -> Value {
        match self {
            Layer::Tool(f) | Layer::Base(f) | Layer::Frame(f) => json!({"type": self.name(), "r": f.r, "p": f.p}),
            Layer::Para { driven, coupled, scaling } => json!({"type": "Parallelogram", "driven": driven, "coupled": coupled, "scaling": scaling}),
        }
    }
}

/// layers[0] is the innermost wrapper.
pub fn build(inner: Arc<dyn Kinematics>, layers: &[Layer]) -> Arc<dyn Kinematics> {
    let mut k = inner;
    for l in layers {
        k = wrap(k, l);
    }
    k
}

pub fn wrap(k: Arc<dyn Kinematics>, l: &Layer) -> Arc<dyn Kinematics> {
    match l {
        Layer::Tool(f) => Arc::new(Tool { robot: k, tool: fr_to_iso(f) }),
        Layer::Base(f) => Arc::new(Base { robot: k, base: fr_to_iso(f) }),
        Layer::Frame(f) => Arc::new(Frame { robot: k, frame: fr_to_iso(f) }),
        Layer::Para { driven, coupled, scaling } => Arc::new(Parallelogram { robot: k, scaling: *scaling, driven: *driven, coupled: *coupled }),
    }
}

/// joint vector seen by the bare robot when the outermost wrapper is given q
pub fn ref_inner_joints(layers: &[Layer], q: &[f64; 6]) -> [f64; 6] {
    let mut qq = *q;
    for l in layers.iter().rev() {
        if let Layer::Para { driven, coupled, scaling } = l {
            qq[*coupled] -= scaling * qq[*driven];
        }
    }
    qq
}

pub fn ref_forward(rp: &RParams, layers: &[Layer], q: &[f64; 6]) -> Fr {
    let qq = ref_inner_joints(layers, q);
    let mut f = fk(rp, &qq);
    for l in layers {
        match l {
            Layer::Tool(x) | Layer::Frame(x) => f = f.mul(x),
            Layer::Base(x) => f = x.mul(&f),
            Layer::Para { .. } => {}
        }
    }
    f
}

pub fn ref_links(rp: &RParams, layers: &[Layer], q: &[f64; 6]) -> [Fr; 6] {
    let qq = ref_inner_joints(layers, q);
    let mut fr = chain(rp, &qq);
    for l in layers {
        match l {
            Layer::Tool(_) => {}
            Layer::Frame(x) => fr[5] = fr[5].mul(x),
            Layer::Base(x) => {
                for i in 0..6 {
                    fr[i] = x.mul(&fr[i]);
                }
            }
            Layer::Para { .. } => {}
        }
    }
    fr
}

/// Random stack. `axial`: tools/frames are axial (5-DOF clauses). `kinds`: allowed layer types.
pub fn gen_stack(rng: &mut Rng, depth: usize, axial: bool, allow: &[&str]) -> Vec<Layer> {
    let mut v = vec![];
    for _ in 0..depth {
        let k = *rng.pick(allow);
        // a share of the transforms is turned by a tiny angle only (1e-9 .. 1e-3 rad)
        let tiny = rng.bool(0.15);
        let tiny_rot = |rng: &mut Rng, f: Fr, axial: bool| {
            let ang = rng.sign() * rng.logu(1e-9, 1e-3);
            let ax = if axial { [0.0, 0.0, 1.0] } else { let v = random_rotation(rng); col(&v, 0) };
            Fr { r: axis_angle(ax, ang), p: f.p }
        };
        // exactly-identity / rotation-only / translation-only transforms (a wrapper that is configured but
        // does nothing, a frame built from coinciding point pairs)
        let special = rng.usize(20);
        let plain = |f: Fr| -> Fr {
            match special {
                0 => Fr::id(),
                1 => Fr { r: I3, p: f.p },
                2 => Fr { r: f.r, p: [0.0; 3] },
                _ => f,
            }
        };
        let l = match k {
            "Tool" => {
                let f = if axial { axial_fr(rng, 0.5) } else { random_fr(rng, 0.5) };
                Layer::Tool(if tiny { tiny_rot(rng, f, axial) } else { plain(f) })
            }
            "Frame" => {
                let f = if axial { axial_fr(rng, 0.5) } else { random_fr(rng, 0.5) };
                Layer::Frame(if tiny { tiny_rot(rng, f, axial) } else { plain(f) })
            }
            "Base" => {
                // (one base in ten stands tens of metres from the world origin: a robot on a long track or in site coordinates)
                let far = rng.bool(0.1);
                let f = random_fr(rng, if far { 60.0 } else { 1.0 });
                // (a fifth of the bases is turned about the vertical only: a robot rotated in place on the floor)
                let f = if rng.bool(0.2) { Fr { r: rotz(rng.range(-3.1, 3.1)), p: f.p } } else { f };
                Layer::Base(if tiny { tiny_rot(rng, f, false) } else { plain(f) })
            }
            _ => {
                let driven = rng.usize(6);
                let mut coupled = rng.usize(5);
                if coupled >= driven {
                    coupled += 1;
                }
                let scaling = *rng.pick(&[1.0, -1.0, 0.0, 0.5, 2.0, -2.0, 1.0, rng.clone().range(-2.0, 2.0)]);
                Layer::Para { driven, coupled, scaling }
            }
        };
        v.push(l);
    }
    v
}

pub fn stack_json(layers: &[Layer]) -> Value {
    Value::Array(layers.iter().map(|l| l.json()).collect())
}
pub fn stack_name(layers: &[Layer]) -> String {
    if layers.is_empty() {
        "bare".to_string()
    } else {
        layers.iter().map(|l| l.name()).collect::<Vec<_>>().join(">")
    }
}
