//! Independent reference model: plain arrays, no nalgebra, no code shared with /repo/src.
//! OPW link chain (product of elementary transforms), pose distances, singularity measures,
//! geometric Jacobian, arc membership.

use std::f64::consts::PI;

pub type V3 = [f64; 3];
pub type M3 = [[f64; 3]; 3];

#[derive(Clone, Copy, Debug)]
pub struct Fr {
    pub r: M3,
    pub p: V3,
}

pub const I3: M3 = [[1.0, 0.0, 0.0], [0.0, 1.0, 0.0], [0.0, 0.0, 1.0]];

pub fn add(a: V3, b: V3) -> V3 {
    [a[0] + b[0], a[1] + b[1], a[2] + b[2]]
}
pub fn sub(a: V3, b: V3) -> V3 {
    [a[0] - b[0], a[1] - b[1], a[2] - b[2]]
}
pub fn scale(a: V3, s: f64) -> V3 {
    [a[0] * s, a[1] * s, a[2] * s]
}
pub fn dot(a: V3, b: V3) -> f64 {
    a[0] * b[0] + a[1] * b[1] + a[2] * b[2]
}
pub fn cross(a: V3, b: V3) -> V3 {
    [a[1] * b[2] - a[2] * b[1], a[2] * b[0] - a[0] * b[2], a[0] * b[1] - a[1] * b[0]]
}
pub fn norm(a: V3) -> f64 {
    dot(a, a).sqrt()
}
pub fn mm(a: &M3, b: &M3) -> M3 {
    let mut c = [[0.0; 3]; 3];
    for i in 0..3 {
        for j in 0..3 {
            c[i][j] = a[i][0] * b[0][j] + a[i][1] * b[1][j] + a[i][2] * b[2][j];
        }
    }
    c
}
pub fn mv(a: &M3, v: V3) -> V3 {
    [dot(a[0], v), dot(a[1], v), dot(a[2], v)]
}
pub fn mt(a: &M3) -> M3 {
    [[a[0][0], a[1][0], a[2][0]], [a[0][1], a[1][1], a[2][1]], [a[0][2], a[1][2], a[2][2]]]
}
pub fn det(a: &M3) -> f64 {
    a[0][0] * (a[1][1] * a[2][2] - a[1][2] * a[2][1]) - a[0][1] * (a[1][0] * a[2][2] - a[1][2] * a[2][0])
        + a[0][2] * (a[1][0] * a[2][1] - a[1][1] * a[2][0])
}
pub fn col(a: &M3, j: usize) -> V3 {
    [a[0][j], a[1][j], a[2][j]]
}
pub fn rotz(t: f64) -> M3 {
    let (s, c) = t.sin_cos();
    [[c, -s, 0.0], [s, c, 0.0], [0.0, 0.0, 1.0]]
}
pub fn roty(t: f64) -> M3 {
    let (s, c) = t.sin_cos();
    [[c, 0.0, s], [0.0, 1.0, 0.0], [-s, 0.0, c]]
}
pub fn rotx(t: f64) -> M3 {
    let (s, c) = t.sin_cos();
    [[1.0, 0.0, 0.0], [0.0, c, -s], [0.0, s, c]]
}
/// Rotation matrix from unit quaternion (w, x, y, z)
pub fn quat_to_m(w: f64, x: f64, y: f64, z: f64) -> M3 {
    [
        [1.0 - 2.0 * (y * y + z * z), 2.0 * (x * y - z * w), 2.0 * (x * z + y * w)],
        [2.0 * (x * y + z * w), 1.0 - 2.0 * (x * x + z * z), 2.0 * (y * z - x * w)],
        [2.0 * (x * z - y * w), 2.0 * (y * z + x * w), 1.0 - 2.0 * (x * x + y * y)],
    ]
}
/// Rodrigues: rotation about unit axis by angle
pub fn axis_angle(ax: V3, t: f64) -> M3 {
    let n = norm(ax);
    let a = scale(ax, 1.0 / n);
    let (s, c) = t.sin_cos();
    let v = 1.0 - c;
    [
        [c + a[0] * a[0] * v, a[0] * a[1] * v - a[2] * s, a[0] * a[2] * v + a[1] * s],
        [a[1] * a[0] * v + a[2] * s, c + a[1] * a[1] * v, a[1] * a[2] * v - a[0] * s],
        [a[2] * a[0] * v - a[1] * s, a[2] * a[1] * v + a[0] * s, c + a[2] * a[2] * v],
    ]
}

impl Fr {
    pub fn id() -> Fr {
        Fr { r: I3, p: [0.0; 3] }
    }
    pub fn new(r: M3, p: V3) -> Fr {
        Fr { r, p }
    }
    pub fn mul(&self, o: &Fr) -> Fr {
        Fr { r: mm(&self.r, &o.r), p: add(mv(&self.r, o.p), self.p) }
    }
    pub fn inv(&self) -> Fr {
        let rt = mt(&self.r);
        Fr { r: rt, p: scale(mv(&rt, self.p), -1.0) }
    }
    pub fn apply(&self, v: V3) -> V3 {
        add(mv(&self.r, v), self.p)
    }
    pub fn z(&self) -> V3 {
        col(&self.r, 2)
    }
}

/// Rotation angle between two rotation matrices via the Frobenius norm of the difference
/// (well conditioned for small angles): ||R1-R2||_F = 2*sqrt(2)*|sin(theta/2)|.
pub fn rot_angle(a: &M3, b: &M3) -> f64 {
    let mut s = 0.0;
    for i in 0..3 {
        for j in 0..3 {
            let d = a[i][j] - b[i][j];
            s += d * d;
        }
    }
    let x = (s.sqrt() / (2.0 * 2f64.sqrt())).min(1.0);
    2.0 * x.asin()
}
pub fn vec_angle(a: V3, b: V3) -> f64 {
    norm(cross(a, b)).atan2(dot(a, b))
}
pub fn pos_dist(a: &Fr, b: &Fr) -> f64 {
    norm(sub(a.p, b.p))
}

#[derive(Clone, Copy, Debug)]
pub struct RParams {
    pub a1: f64,
    pub a2: f64,
    pub b: f64,
    pub c1: f64,
    pub c2: f64,
    pub c3: f64,
    pub c4: f64,
    pub offsets: [f64; 6],
    pub signs: [i8; 6],
    pub dof: i8,
}

impl RParams {
    pub fn theta(&self, q: &[f64; 6]) -> [f64; 6] {
        let mut t = [0.0; 6];
        for i in 0..6 {
            t[i] = self.signs[i] as f64 * q[i] - self.offsets[i];
        }
        t
    }
    /// inverse of theta() (only for non-zero signs)
    pub fn from_theta(&self, t: &[f64; 6]) -> [f64; 6] {
        let mut q = [0.0; 6];
        for i in 0..6 {
            q[i] = (t[i] + self.offsets[i]) * self.signs[i] as f64;
        }
        q
    }
    pub fn reach(&self) -> f64 {
        self.a1.abs() + self.b.abs() + self.c1.abs() + self.c2.abs() + self.a2.abs() + self.c3.abs() + self.c4.abs()
    }
    pub fn psi3(&self) -> f64 {
        self.a2.atan2(self.c3)
    }
    pub fn kappa(&self) -> f64 {
        (self.a2 * self.a2 + self.c3 * self.c3).sqrt()
    }
}

/// Six link frames of the OPW chain, from the model definition:
/// Tz(c1)Rz(t1) . T(a1,b,0)Ry(t2) . Tz(c2)Ry(t3) . Tx(a2)Rz(t4) . Tz(c3)Ry(t5) . Tz(c4)Rz(t6)
pub fn chain(p: &RParams, q: &[f64; 6]) -> [Fr; 6] {
    let t = p.theta(q);
    let e = [
        Fr::new(rotz(t[0]), [0.0, 0.0, p.c1]),
        Fr::new(roty(t[1]), [p.a1, p.b, 0.0]),
        Fr::new(roty(t[2]), [0.0, 0.0, p.c2]),
        Fr::new(rotz(t[3]), [p.a2, 0.0, 0.0]),
        Fr::new(roty(t[4]), [0.0, 0.0, p.c3]),
        Fr::new(rotz(t[5]), [0.0, 0.0, p.c4]),
    ];
    let mut out = [Fr::id(); 6];
    let mut acc = Fr::id();
    for i in 0..6 {
        acc = acc.mul(&e[i]);
        out[i] = acc;
    }
    out
}

pub fn fk(p: &RParams, q: &[f64; 6]) -> Fr {
    chain(p, q)[5]
}

/// wrap angle to (-pi, pi]
pub fn wrap(a: f64) -> f64 {
    let mut x = a % (2.0 * PI);
    if x > PI {
        x -= 2.0 * PI;
    }
    if x <= -PI {
        x += 2.0 * PI;
    }
    x
}
/// absolute circular distance in [0, pi]
pub fn circ_dist(a: f64, b: f64) -> f64 {
    wrap(a - b).abs()
}

/// Singularity measures of a configuration (model angles).
#[derive(Clone, Copy, Debug)]
pub struct SingMeasures {
    pub wrist: f64,    // |sin t5|
    pub elbow: f64,    // |sin(t3 + psi3)|
    pub shoulder: f64, // distance of the wrist centre from axis 1 (radial component before b), relative to reach
    pub shoulder_abs: f64,
}

pub fn sing_measures(p: &RParams, q: &[f64; 6]) -> SingMeasures {
    let t = p.theta(q);
    let frames = chain(p, q);
    // wrist centre = origin of link 5 frame (origin of frame 4 translated by c3 along its z) = frames[4].p
    let wc = frames[4].p;
    let rxy = (wc[0] * wc[0] + wc[1] * wc[1]).sqrt();
    // radial coordinate in the arm plane: sqrt(rxy^2 - b^2)
    let rad = (rxy * rxy - p.b * p.b).max(0.0).sqrt();
    let reach = p.reach().max(1e-12);
    SingMeasures {
        wrist: t[4].sin().abs(),
        elbow: (t[2] + p.psi3()).sin().abs(),
        shoulder: rad / reach,
        shoulder_abs: rad,
    }
}

/// Geometric Jacobian (6x6, rows vx,vy,vz,wx,wy,wz; column i for user joint i) of a chain placed
/// by `base`, with `tool` attached to the flange. d/dq_i = sign_i * d/dtheta_i.
pub fn geometric_jacobian(p: &RParams, q: &[f64; 6], base: &Fr, tool: &Fr) -> [[f64; 6]; 6] {
    let frames = chain(p, q);
    let tcp = base.mul(&frames[5]).mul(tool);
    // joint i rotates about an axis expressed in frame i (after rotation it is the same axis):
    // axes: z, y, y, z, y, z of frames 1..6
    let axes = [2usize, 1, 1, 2, 1, 2];
    let mut j = [[0.0; 6]; 6];
    for i in 0..6 {
        let f = base.mul(&frames[i]);
        let ax = col(&f.r, axes[i]);
        let o = f.p;
        let s = p.signs[i] as f64;
        let lin = cross(ax, sub(tcp.p, o));
        for k in 0..3 {
            j[k][i] = s * lin[k];
            j[k + 3][i] = s * ax[k];
        }
    }
    j
}

/// Arc membership per property C07. Returns (verdict, distance to the nearest arc end in radians
/// measured on the circle). from == to: unconstrained. span >= 2pi: everything.
/// `None` verdict = degenerate (from > to with from == to mod 2pi).
pub fn arc_contains(from: f64, to: f64, angle: f64) -> (Option<bool>, f64) {
    let two_pi = 2.0 * PI;
    if from == to {
        return (Some(true), f64::INFINITY);
    }
    if to - from >= two_pi {
        return (Some(true), f64::INFINITY);
    }
    let width = (to - from).rem_euclid(two_pi);
    if width == 0.0 || (from > to && (width < 1e-12 || two_pi - width < 1e-12)) {
        return (None, 0.0);
    }
    let rel = (angle - from).rem_euclid(two_pi);
    let inside = rel <= width;
    // distance to nearest end along the circle
    let d_from = rel.min(two_pi - rel);
    let rel_to = (angle - to).rem_euclid(two_pi);
    let d_to = rel_to.min(two_pi - rel_to);
    (Some(inside), d_from.min(d_to))
}

/// nearest 2pi-representative of angle `a` to `near`
pub fn nearest_rep(a: f64, near: f64) -> f64 {
    let k = ((near - a) / (2.0 * PI)).round();
    a + k * 2.0 * PI
}
