//! Monitor state, verdict bookkeeping, evidence / replay writers, known-findings classifier.

use serde_json::{json, Map, Value};
use std::collections::{BTreeMap, BTreeSet, HashSet};
use std::io::Write;
use std::os::fd::FromRawFd;
use std::sync::Mutex;

pub const VERIF_DIR: &str = "/verif";

#[derive(Clone, Debug)]
pub struct Violation {
    pub signature: String,
    pub what: String,
    pub kind: String,
    pub idx: u64,
    pub detail: Value,
}

/// Per-shard monitor state. Merged at the end of the run.
#[derive(Default)]
pub struct Mon {
    pub evaluations: u64,                     // cases generated / executions run
    pub oracle_evals: u64,                    // individual oracle evaluations (conclusive)
    pub nontrivial: HashSet<u64>,             // hashes of distinct non-trivial cases
    pub counters: BTreeMap<String, u64>,      // named counters (cells, classes, paths...)
    pub inconclusive: BTreeMap<String, u64>,  // per reason
    pub maxima: BTreeMap<String, f64>,        // max statistics seen
    pub sets: BTreeMap<String, BTreeSet<String>>, // distinct things seen (interleavings, ...)
    pub samples: Vec<Value>,
    pub violations: Vec<Violation>,
    pub cur_kind: String,
    pub cur_idx: u64,
}

impl Mon {
    pub fn new() -> Mon {
        Mon::default()
    }
    pub fn count(&mut self, name: &str) {
        *self.counters.entry(name.to_string()).or_insert(0) += 1;
    }
    pub fn count_n(&mut self, name: &str, n: u64) {
        *self.counters.entry(name.to_string()).or_insert(0) += n;
    }
    pub fn get(&self, name: &str) -> u64 {
        *self.counters.get(name).unwrap_or(&0)
    }
    pub fn held(&mut self) {
        self.oracle_evals += 1;
    }
    pub fn held_n(&mut self, n: u64) {
        self.oracle_evals += n;
    }
    pub fn inconclusive(&mut self, reason: &str) {
        *self.inconclusive.entry(reason.to_string()).or_insert(0) += 1;
    }
    pub fn max(&mut self, name: &str, v: f64) {
        let e = self.maxima.entry(name.to_string()).or_insert(f64::NEG_INFINITY);
        if v > *e {
            *e = v;
        }
    }
    pub fn seen(&mut self, set: &str, item: String) {
        let s = self.sets.entry(set.to_string()).or_default();
        if s.len() < 100000 {
            s.insert(item);
        }
    }
    pub fn nontrivial(&mut self, h: u64) {
        self.nontrivial.insert(h);
    }
    pub fn sample(&mut self, v: Value) {
        if self.samples.len() < 3 {
            self.samples.push(v);
        }
    }
    pub fn violation(&mut self, signature: &str, what: &str, detail: Value) {
        if self.violations.len() < 200 {
            self.violations.push(Violation {
                signature: signature.to_string(),
                what: what.to_string(),
                kind: self.cur_kind.clone(),
                idx: self.cur_idx,
                detail,
            });
        } else {
            self.count("violations_not_stored");
        }
        self.count("violating_evaluations");
    }
    pub fn merge(&mut self, o: Mon) {
        self.evaluations += o.evaluations;
        self.oracle_evals += o.oracle_evals;
        self.nontrivial.extend(o.nontrivial);
        for (k, v) in o.counters {
            *self.counters.entry(k).or_insert(0) += v;
        }
        for (k, v) in o.inconclusive {
            *self.inconclusive.entry(k).or_insert(0) += v;
        }
        for (k, v) in o.maxima {
            let e = self.maxima.entry(k).or_insert(f64::NEG_INFINITY);
            if v > *e {
                *e = v;
            }
        }
        for (k, v) in o.sets {
            self.sets.entry(k).or_default().extend(v);
        }
        for s in o.samples {
            if self.samples.len() < 6 {
                self.samples.push(s);
            }
        }
        self.violations.extend(o.violations);
    }
}

pub fn hash_f64s(xs: &[f64]) -> u64 {
    let mut h: u64 = 0xcbf29ce484222325;
    for x in xs {
        h ^= x.to_bits();
        h = h.wrapping_mul(0x100000001b3);
        h ^= h >> 29;
    }
    h
}
pub fn hash_combine(a: u64, b: u64) -> u64 {
    crate::rng::mix(a ^ b.rotate_left(23))
}

// ---------------------------------------------------------------------------------------------
// stdout hygiene: the library prints from the planners. fd 1 is pointed at a log file and the
// harness writes its verdict lines to a duplicate of the original stdout.

static REAL_OUT: Mutex<Option<std::fs::File>> = Mutex::new(None);

pub fn redirect_stdout(log_name: &str) {
    let dir = format!("{}/target/logs", VERIF_DIR);
    let _ = std::fs::create_dir_all(&dir);
    let path = format!("{}/{}.log", dir, log_name);
    unsafe {
        let saved = libc::dup(1);
        if saved < 0 {
            return;
        }
        let cpath = std::ffi::CString::new(path).unwrap();
        let fd = libc::open(cpath.as_ptr(), libc::O_WRONLY | libc::O_CREAT | libc::O_TRUNC, 0o644);
        if fd >= 0 {
            libc::dup2(fd, 1);
            libc::close(fd);
        }
        *REAL_OUT.lock().unwrap() = Some(std::fs::File::from_raw_fd(saved));
    }
}

pub fn out(line: &str) {
    let mut g = REAL_OUT.lock().unwrap();
    match g.as_mut() {
        Some(f) => {
            let _ = writeln!(f, "{}", line);
            let _ = f.flush();
        }
        None => {
            println!("{}", line);
        }
    }
}

// ---------------------------------------------------------------------------------------------
// panic hygiene

thread_local! {
    pub static LAST_PANIC: std::cell::RefCell<Option<String>> = std::cell::RefCell::new(None);
}

pub fn install_silent_panic_hook() {
    std::panic::set_hook(Box::new(|info| {
        let msg = if let Some(s) = info.payload().downcast_ref::<&str>() {
            s.to_string()
        } else if let Some(s) = info.payload().downcast_ref::<String>() {
            s.clone()
        } else {
            "panic".to_string()
        };
        let loc = info.location().map(|l| format!("{}:{}", l.file(), l.line())).unwrap_or_default();
        LAST_PANIC.with(|p| *p.borrow_mut() = Some(format!("{} @ {}", msg, loc)));
    }));
}

/// Run library code that must not panic. Err(message) on panic.
pub fn guarded<T, F: FnOnce() -> T>(f: F) -> Result<T, String> {
    match std::panic::catch_unwind(std::panic::AssertUnwindSafe(f)) {
        Ok(v) => Ok(v),
        Err(_) => Err(LAST_PANIC.with(|p| p.borrow_mut().take()).unwrap_or_else(|| "panic".into())),
    }
}

// ---------------------------------------------------------------------------------------------

pub struct Known {
    pub property: String,
    pub signature: String,
    pub status: String,
    pub what: String,
}

pub fn load_known() -> Vec<Known> {
    let path = format!("{}/known_findings.json", VERIF_DIR);
    let mut out = vec![];
    if let Ok(s) = std::fs::read_to_string(&path) {
        if let Ok(v) = serde_json::from_str::<Value>(&s) {
            if let Some(a) = v["findings"].as_array() {
                for f in a {
                    out.push(Known {
                        property: f["property"].as_str().unwrap_or("").to_string(),
                        signature: f["signature"].as_str().unwrap_or("").to_string(),
                        status: f["status"].as_str().unwrap_or("").to_string(),
                        what: f["what"].as_str().unwrap_or("").to_string(),
                    });
                }
            }
        }
    }
    out
}

pub struct RunInfo {
    pub property: String,
    pub tier: String,
    pub seed: u64,
    pub rule: String,
    pub assumptions: Vec<String>,
    pub wall_s: f64,
    /// (counter name, minimum) pairs: if a counter is below its minimum the run observed too little
    pub minimums: Vec<(String, u64)>,
    pub extra: Map<String, Value>,
}

/// Writes evidence + replays, prints verdict lines, returns the process exit code.
pub fn finish(info: &RunInfo, mon: &Mon) -> i32 {
    let known = load_known();
    let mut new_sigs: BTreeMap<String, (usize, &Violation)> = BTreeMap::new();
    let mut known_sigs: BTreeMap<String, (usize, String)> = BTreeMap::new();
    for v in &mon.violations {
        let k = known.iter().find(|k| k.status == "open" && k.property == info.property && k.signature == v.signature);
        if let Some(k) = k {
            known_sigs.entry(v.signature.clone()).or_insert((0, k.what.clone())).0 += 1;
        } else {
            new_sigs.entry(v.signature.clone()).or_insert((0, v)).0 += 1;
        }
    }
    let replay_dir = format!("{}/replays/{}", VERIF_DIR, info.property);
    let mut exit = 0;
    let mut n = 0;
    let mut replay_paths = vec![];
    for (sig, (cnt, v)) in &new_sigs {
        let _ = std::fs::create_dir_all(&replay_dir);
        let path = format!("{}/{}-{}.json", replay_dir, info.seed, n);
        n += 1;
        let doc = json!({
            "property": info.property, "tier": info.tier, "seed": info.seed, "kind": v.kind, "idx": v.idx,
            "signature": sig, "what": v.what, "occurrences_in_run": cnt, "detail": v.detail,
        });
        let _ = std::fs::write(&path, serde_json::to_string_pretty(&doc).unwrap());
        if n <= 12 {
            out(&format!("VIOLATION property={} replay={}", info.property, path));
            out(&format!("  signature={} what={} (x{})", sig, v.what, cnt));
        } else if n == 13 {
            out(&format!("  ... {} violation signatures in total, all replays under {}", new_sigs.len(), replay_dir));
        }
        replay_paths.push(path);
        exit = 1;
    }
    for (sig, (cnt, what)) in &known_sigs {
        out(&format!("KNOWN-FINDING: property={} {} [{}] (x{})", info.property, what, sig, cnt));
    }
    // observed-too-little guard
    let mut starving = vec![];
    for (name, min) in &info.minimums {
        let have = if name == "oracle_evals" {
            mon.oracle_evals
        } else if let Some(set) = name.strip_prefix("set:") {
            mon.sets.get(set).map(|s| s.len() as u64).unwrap_or(0)
        } else {
            mon.get(name)
        };
        if have < *min {
            starving.push(format!("{}={}<{}", name, have, min));
        }
    }
    if !starving.is_empty() && exit == 0 {
        out(&format!("HARNESS-ERROR property={} monitors observed too little: {}", info.property, starving.join(", ")));
        exit = 2;
    }

    let mut cov = Map::new();
    cov.insert("evaluations".into(), json!(mon.evaluations.max(1)));
    cov.insert("distinct_nontrivial".into(), json!(mon.nontrivial.len()));
    cov.insert("rule".into(), json!(info.rule));
    cov.insert("samples".into(), Value::Array(mon.samples.clone()));
    cov.insert("oracle_evaluations_conclusive".into(), json!(mon.oracle_evals));
    cov.insert("inconclusive_by_reason".into(), json!(mon.inconclusive));
    cov.insert("counters".into(), json!(mon.counters));
    let maxima: BTreeMap<String, Value> = mon.maxima.iter().map(|(k, v)| (k.clone(), json!(v))).collect();
    cov.insert("maxima_observed".into(), json!(maxima));
    let mut sets = Map::new();
    for (k, v) in &mon.sets {
        let ex: Vec<&String> = v.iter().take(8).collect();
        sets.insert(k.clone(), json!({"distinct": v.len(), "examples": ex}));
    }
    cov.insert("distinct_observed".into(), Value::Object(sets));
    cov.insert("known_findings_hit".into(), json!(known_sigs.iter().map(|(s, (c, _))| (s.clone(), *c)).collect::<BTreeMap<_, _>>()));
    cov.insert("new_violation_signatures".into(), json!(new_sigs.keys().collect::<Vec<_>>()));
    cov.insert("replays".into(), json!(replay_paths));
    for (k, v) in &info.extra {
        cov.insert(k.clone(), v.clone());
    }
    let ev = json!({
        "property_id": info.property,
        "tier": info.tier,
        "seed": info.seed,
        "level": "exploration",
        "coverage": Value::Object(cov),
        "assumptions": info.assumptions,
        "wall_s": info.wall_s,
        "violations": new_sigs.values().map(|(c, _)| *c).sum::<usize>(),
        "verdict": if exit == 1 { "violated" } else if exit == 2 { "inconclusive" } else { "held on what was observed" },
    });
    // auxiliary runs (sanitizer builds, experiments) may redirect their evidence
    let edir = std::env::var("VERIF_EVIDENCE_DIR").unwrap_or_else(|_| format!("{}/evidence", VERIF_DIR));
    let _ = std::fs::create_dir_all(&edir);
    let path = format!("{}/{}.json", edir, info.property);
    std::fs::write(&path, serde_json::to_string_pretty(&ev).unwrap()).expect("cannot write evidence");
    let inc: u64 = mon.inconclusive.values().sum();
    out(&format!(
        "SUMMARY property={} tier={} seed={} cases={} oracle_evals={} distinct_nontrivial={} inconclusive={} new_violations={} known={} wall={:.1}s exit={}",
        info.property, info.tier, info.seed, mon.evaluations, mon.oracle_evals, mon.nontrivial.len(), inc,
        new_sigs.len(), known_sigs.len(), info.wall_s, exit
    ));
    exit
}

pub fn jf(xs: &[f64]) -> Value {
    Value::Array(xs.iter().map(|x| if x.is_finite() { json!(x) } else { json!(format!("{}", x)) }).collect())
}
