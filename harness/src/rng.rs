//! Deterministic SplitMix64 stream. Every generated case gets its own stream derived from
//! (seed, property, kind, index) so that a single case can be regenerated for replay.

#[derive(Clone, Debug)]
pub struct Rng(pub u64);

pub fn mix(mut z: u64) -> u64 {
    z = z.wrapping_add(0x9E3779B97F4A7C15);
    z = (z ^ (z >> 30)).wrapping_mul(0xBF58476D1CE4E5B9);
    z = (z ^ (z >> 27)).wrapping_mul(0x94D049BB133111EB);
    z ^ (z >> 31)
}

pub fn hash_str(s: &str) -> u64 {
    let mut h: u64 = 0xcbf29ce484222325;
    for b in s.bytes() {
        h ^= b as u64;
        h = h.wrapping_mul(0x100000001b3);
    }
    h
}

impl Rng {
    pub fn new(seed: u64) -> Self {
        Rng(mix(seed ^ 0x1234_5678_9abc_def0))
    }
    pub fn for_case(seed: u64, prop: &str, kind: &str, idx: u64) -> Self {
        let h = mix(seed) ^ mix(hash_str(prop)).rotate_left(17) ^ mix(hash_str(kind)).rotate_left(31) ^ mix(idx.wrapping_mul(0x2545F4914F6CDD1D));
        Rng::new(h)
    }
    pub fn next_u64(&mut self) -> u64 {
        self.0 = self.0.wrapping_add(0x9E3779B97F4A7C15);
        let mut z = self.0;
        z = (z ^ (z >> 30)).wrapping_mul(0xBF58476D1CE4E5B9);
        z = (z ^ (z >> 27)).wrapping_mul(0x94D049BB133111EB);
        z ^ (z >> 31)
    }
    /// uniform in [0,1)
    pub fn f(&mut self) -> f64 {
        (self.next_u64() >> 11) as f64 / (1u64 << 53) as f64
    }
    pub fn range(&mut self, a: f64, b: f64) -> f64 {
        a + (b - a) * self.f()
    }
    pub fn usize(&mut self, n: usize) -> usize {
        (self.next_u64() % n as u64) as usize
    }
    pub fn int(&mut self, a: i64, b: i64) -> i64 {
        a + (self.next_u64() % ((b - a + 1) as u64)) as i64
    }
    pub fn bool(&mut self, p: f64) -> bool {
        self.f() < p
    }
    pub fn sign(&mut self) -> f64 {
        if self.bool(0.5) { 1.0 } else { -1.0 }
    }
    pub fn pick<'a, T>(&mut self, xs: &'a [T]) -> &'a T {
        &xs[self.usize(xs.len())]
    }
    /// standard normal (Box-Muller)
    pub fn normal(&mut self) -> f64 {
        let u1 = (1.0 - self.f()).max(1e-300);
        let u2 = self.f();
        (-2.0 * u1.ln()).sqrt() * (2.0 * std::f64::consts::PI * u2).cos()
    }
    /// log-uniform in [a,b], a,b>0
    pub fn logu(&mut self, a: f64, b: f64) -> f64 {
        (self.range(a.ln(), b.ln())).exp()
    }
}
