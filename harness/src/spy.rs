//! SpyKinematics: a boundary monitor that wraps any Kinematics, forwards every call unchanged and
//! appends an event to a thread-safe append-only log. Optional per-call callback (used to inject
//! delays, raise cancellation flags at the k-th query, ...).

use nalgebra::Isometry3;
use rs_opw_kinematics::constraints::Constraints;
use rs_opw_kinematics::kinematic_traits::{Joints, Kinematics, Pose, Singularity, Solutions};
use std::sync::atomic::{AtomicU64, Ordering};
use std::sync::{Arc, Mutex};

#[derive(Clone, Copy, Debug, PartialEq, Eq, Hash)]
pub enum Method {
    Inverse,
    Continuing,
    FiveDof,
    Continuing5,
    Forward,
    Links,
    Singularity,
    Constraints,
}

impl Method {
    pub fn name(&self) -> &'static str {
        match self {
            Method::Inverse => "inverse",
            Method::Continuing => "inverse_continuing",
            Method::FiveDof => "inverse_5dof",
            Method::Continuing5 => "inverse_continuing_5dof",
            Method::Forward => "forward",
            Method::Links => "forward_with_joint_poses",
            Method::Singularity => "kinematic_singularity",
            Method::Constraints => "constraints",
        }
    }
}
pub const ALL_METHODS: [Method; 8] =
    [Method::Inverse, Method::Continuing, Method::FiveDof, Method::Continuing5, Method::Forward, Method::Links, Method::Singularity, Method::Constraints];

#[derive(Clone, Debug)]
pub struct Event {
    pub seq: u64,
    pub thread: u64,
    pub method: Method,
    pub pose: Option<Isometry3<f64>>,
    pub joints: Option<Joints>,
    pub j6: Option<f64>,
    pub n_result: usize,
}

pub type Callback = Box<dyn Fn(&Event) + Send + Sync>;

pub struct Spy {
    pub inner: Arc<dyn Kinematics>,
    pub log: Mutex<Vec<Event>>,
    pub seq: AtomicU64,
    /// called BEFORE the inner call is made (n_result = 0)
    pub before: Option<Callback>,
    pub record: bool,
}

fn thread_id() -> u64 {
    use std::hash::{Hash, Hasher};
    let mut h = std::collections::hash_map::DefaultHasher::new();
    std::thread::current().id().hash(&mut h);
    h.finish()
}

impl Spy {
    pub fn new(inner: Arc<dyn Kinematics>) -> Spy {
        Spy { inner, log: Mutex::new(Vec::new()), seq: AtomicU64::new(0), before: None, record: true }
    }
    pub fn with_callback(inner: Arc<dyn Kinematics>, cb: Callback) -> Spy {
        Spy { inner, log: Mutex::new(Vec::new()), seq: AtomicU64::new(0), before: Some(cb), record: true }
    }
    fn ev(&self, method: Method, pose: Option<&Pose>, joints: Option<&Joints>, j6: Option<f64>) -> Event {
        let e = Event { seq: self.seq.fetch_add(1, Ordering::SeqCst), thread: thread_id(), method, pose: pose.cloned(), joints: joints.cloned(), j6, n_result: 0 };
        if let Some(cb) = &self.before {
            cb(&e);
        }
        e
    }
    fn push(&self, mut e: Event, n: usize) {
        if self.record {
            e.n_result = n;
            self.log.lock().unwrap().push(e);
        }
    }
    pub fn take(&self) -> Vec<Event> {
        let mut v = std::mem::take(&mut *self.log.lock().unwrap());
        v.sort_by_key(|e| e.seq);
        v
    }
    pub fn clear(&self) {
        self.log.lock().unwrap().clear();
    }
}

impl Kinematics for Spy {
    fn inverse(&self, pose: &Pose) -> Solutions {
        let e = self.ev(Method::Inverse, Some(pose), None, None);
        let r = self.inner.inverse(pose);
        self.push(e, r.len());
        r
    }
    fn inverse_continuing(&self, pose: &Pose, previous: &Joints) -> Solutions {
        let e = self.ev(Method::Continuing, Some(pose), Some(previous), None);
        let r = self.inner.inverse_continuing(pose, previous);
        self.push(e, r.len());
        r
    }
    fn forward(&self, qs: &Joints) -> Pose {
        let e = self.ev(Method::Forward, None, Some(qs), None);
        let r = self.inner.forward(qs);
        self.push(e, 1);
        r
    }
    fn inverse_5dof(&self, pose: &Pose, j6: f64) -> Solutions {
        let e = self.ev(Method::FiveDof, Some(pose), None, Some(j6));
        let r = self.inner.inverse_5dof(pose, j6);
        self.push(e, r.len());
        r
    }
    fn inverse_continuing_5dof(&self, pose: &Pose, prev: &Joints) -> Solutions {
        let e = self.ev(Method::Continuing5, Some(pose), Some(prev), None);
        let r = self.inner.inverse_continuing_5dof(pose, prev);
        self.push(e, r.len());
        r
    }
    fn constraints(&self) -> &Option<Constraints> {
        let e = self.ev(Method::Constraints, None, None, None);
        let r = self.inner.constraints();
        self.push(e, 1);
        r
    }
    fn kinematic_singularity(&self, qs: &Joints) -> Option<Singularity> {
        let e = self.ev(Method::Singularity, None, Some(qs), None);
        let r = self.inner.kinematic_singularity(qs);
        self.push(e, 1);
        r
    }
    fn forward_with_joint_poses(&self, joints: &Joints) -> [Pose; 6] {
        let e = self.ev(Method::Links, None, Some(joints), None);
        let r = self.inner.forward_with_joint_poses(joints);
        self.push(e, 6);
        r
    }
}
