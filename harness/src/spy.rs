//! placeholder (SpyKinematics) - filled in with C09
