#!/bin/bash
# usage: tools/confirm_mutant.sh <dir with patch.diff demo.rs meta.json> <seeded id> <property>
# Confirms a seeded change in a scratch worktree of /repo HEAD (compiles, 66 tests pass, demo fails with
# the change and passes without), runs the property's quick check against it, and stores everything
# under /verif/seeded/<id>/. The scratch worktree is removed afterwards.
set -u
SRC=$1; ID=$2; PROP=$3
OUT=/verif/seeded/$ID
# LANE=<n> gives the run its own scratch worktree and build directory (several confirmations in parallel);
# SKIP_CHECK=1 leaves /repo alone (the check is then run later with tools/try_mutant.sh).
LANE=${LANE:-}
WT=/tmp/confirm/wt$LANE
export CARGO_TARGET_DIR=/tmp/confirm/target$LANE CARGO_NET_OFFLINE=true
FEAT="--no-default-features --features allow_filesystem,collisions,stroke_planning --offline"
mkdir -p /tmp/confirm "$OUT"
git -C /repo worktree remove --force $WT 2>/dev/null; rm -rf $WT
git -C /repo worktree add -q --detach $WT HEAD || exit 2
cd $WT
if ! git apply --check "$SRC/patch.diff" 2>/dev/null; then echo "$ID: patch does not apply to HEAD"; git -C /repo worktree remove --force $WT; exit 3; fi
mkdir -p tests; cp "$SRC/demo.rs" tests/demo_x.rs
clean_demo=$(cargo test --test demo_x $FEAT 2>&1 | grep -E "^test result" | tail -1)
git apply "$SRC/patch.diff"
suite=$(cargo test --lib $FEAT 2>&1 | grep -E "^test result|error(\[|:)" | tail -1)
mut_demo=$(cargo test --test demo_x $FEAT 2>&1 | grep -E "^test result" | tail -1)
cd /verif
git -C /repo worktree remove --force $WT
# run the monitor against the change
if [ "${SKIP_CHECK:-0}" = 1 ]; then chk=""; code=-1; else
git -C /repo apply "$SRC/patch.diff"
chk=$(bin/check $PROP quick 2>&1)
code=$?
git -C /repo checkout -- .
fi
sigs=$(echo "$chk" | grep -E "^  signature=" | head -3 | sed 's/ what=.*//' | tr '\n' ';')
cp "$SRC/patch.diff" "$OUT/patch.diff"; cp "$SRC/demo.rs" "$OUT/demo.rs"
python3 - "$SRC/meta.json" "$OUT/meta.json" "$PROP" "$clean_demo" "$suite" "$mut_demo" "$code" "$sigs" <<'PY'
import json,sys
src,out,prop,clean,suite,mut,code,sigs=sys.argv[1:9]
try: m=json.load(open(src))
except Exception: m={}
meta={"property":prop,"summary":m.get("summary"),"needs_to_manifest":m.get("needs_to_manifest"),
 "author":"independent sub-agent given only the property text and its own worktree",
 "confirmed_by_us":{"base":"/repo HEAD at confirmation time","demo_on_unchanged_tree":clean,"existing_suite_with_change":suite,"demo_with_change":mut,
   "commands":["cargo test --test demo_x --no-default-features --features allow_filesystem,collisions,stroke_planning --offline (clean, then with patch)","cargo test --lib (same features) with patch"]},
 "our_check":{"cmd":"bin/check %s quick (patch applied to /repo, undone afterwards)"%prop,"exit":int(code),"first_signatures":sigs}}
json.dump(meta,open(out,'w'),indent=1)
print(out.split('/')[-2], "| clean:",clean,"| suite:",suite,"| mutant demo:",mut,"| check exit",code,sigs[:150])
PY
