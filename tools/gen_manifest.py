#!/usr/bin/env python3
"""Regenerates /verif/MANIFEST.json from the table below. Run after adding a check."""
import json, subprocess, sys

# property -> (technique, level text, level note, design ref)
CHECKS = {
 "C03": ("runtime oracle: every forward()/forward_with_joint_poses() result compared with an independent plain-array OPW link chain over generated robots and joint vectors; metamorphic prefix test",
         "Exploration: 3e5 (quick) / 1.2e7 (thorough) generated robot x joint-vector cases, ~24 oracle evaluations each (flange, six links, origins, unit rotations, prefix independence). Holds only for the inputs generated; stratified over geometry classes, all 64 sign patterns, offsets, |q| up to 1e6 turns.",
         "Trusted base: /verif/harness/src/refmodel.rs (chain of elementary transforms). Tolerance (1e-11+2e-15*max|q|)*(1+reach).",
         "DESIGN.md section 5, C03"),
}

NOT_YET = {}

def E(tech, text, note, ref):
    return (tech, text, note, ref)

CHECKS.update({
 "C01": E("runtime oracle: every vector returned by the four inverse entry points is pushed through an independent link-chain model and compared with the requested pose; hostile inputs under catch_unwind",
          "Exploration: 1.5e5 (quick) / 6e6 (thorough) robot x pose x previous cases, four entry points each, every returned element checked (finite, normalised, reproduces pose within 1e-6 m / 1e-6 rad; position + tool axis for 5-DOF). Holds only for the generated inputs.",
          "Trusted base: refmodel chain; slack 1e-9+1e-12*reach. Non-finite 'previous' vectors are outside the quantifier and are not generated.",
          "DESIGN.md section 5, C01"),
 "C02": E("runtime oracle: inverse(FK_ref(q)) must contain q, the wrist-flipped twin of every answer, no duplicates, and be stable under re-solving; domain decided by reference singularity measures",
          "Exploration: 1.5e5 / 8e6 robot x q cases away from singularities (margin 1e-3), all branches examined; near-singular cases are reported inconclusive.",
          "Trusted base: refmodel chain and singularity measures; margins 1e-3 (domain) / 1e-2 (closure sub-checks).",
          "DESIGN.md section 5, C02"),
 "C07": E("exhaustive 5-degree lattice with exact integer oracle + random reals with metamorphic turn shifts, against Constraints::compliant/filter",
          "Exploration; the lattice part (24.1e6 triples in [-720,720]^3) is enumerated completely on every run (exhaustive_subspace), random reals 2e5 / 1e7 six-joint cases with turn-invariance, centre and filter checks.",
          "Trusted base: integer arithmetic arc oracle and refmodel::arc_contains. from>to with from==to (mod 2pi) is skipped as degenerate.",
          "DESIGN.md section 5, C07"),
 "C18": E("runtime oracle: every draw of Constraints::random_angles judged by the reference arc oracle, many draws per constraint set from 16 threads",
          "Exploration: 4e3 / 2e5 constraint sets x 500 draws x 6 joints, all wrap-around classes (both positive / both negative / straddling / to==0 / from-to>2pi).",
          "Trusted base: refmodel::arc_contains; thread_rng cannot be seeded: coverage comes from repetition.",
          "DESIGN.md section 5, C18"),
})

CHECKS.update({
 "C04": E("runtime oracle on single calls (nearest 2pi-representative, documented cost order, superset of plain inverse, previous-comes-back-first) plus history checker over dense joint-space trajectories where each call's previous is the preceding first answer",
          "Exploration: 1.5e5 / 6e6 single calls x two continuation entry points, 600 / 4e4 trajectories of 200..1500 steps; all weight modes and the sentinel; tracking of positions and increments (no branch switch, no 2pi jump).",
          "Trusted base: documented cost formula as restated in DESIGN.md; refmodel chain and singularity measures; elbow/shoulder margin 0.1 on trajectories.",
          "DESIGN.md section 5, C04"),
 "C05": E("runtime oracle: kinematic_singularity vs geometric collinearity of the J4/J6 axes of the reference chain; continuity of inverse_continuing at exactly singular poses under the property's preconditions",
          "Exploration: 2e5 / 1e7 detection cases (k=-2..2, both sides of the band, raw-J5 decoys, offsets, J5 signs) and 1.5e5 / 6e6 continuity cases of which those with arm sensitivity <= 3 rad/m and a single singular branch are evaluated.",
          "Trusted base: refmodel chain; sensitivity bound 3 rad/m calibrated on this solver (first failures at ~7 rad/m).",
          "DESIGN.md section 5, C05"),
 "C06": E("runtime oracle: every answer of the 5-DOF entry points (and of inverse/inverse_continuing on dof-5 robots), bare and behind axial tools / bases, checked for tool point, tool axis, verbatim J6, presence of the generating J1..J5, non-emptiness",
          "Exploration: 1e5 / 5e6 robot x stack x q x J6 cases, 2 or 4 entry points each.",
          "Trusted base: refmodel chain and reference stack composition.",
          "DESIGN.md section 5, C06"),
 "C08": E("differential runtime oracle: the same wrapper stack built with and without limits; constrained answers judged by the reference arc oracle, compliant unconstrained answers must be present; constraints() delegation",
          "Exploration: 4e5 / 1.2e7 cases over stacks of depth 0..3 (Tool/Base/Frame/Parallelogram), dof 5/6, four entry points, eight limit classes, three weight modes.",
          "Trusted base: refmodel::arc_contains; parallelogram answers are mapped back to the wrapped robot's coordinates (assumption recorded in evidence).",
          "DESIGN.md section 5, C08"),
})

CHECKS.update({
 "C09": E("value oracle (reference composition base*chain*tool in plain matrices for forward, link poses and every inverse answer) plus boundary spy: exhaustive delegation matrix 3 wrappers x 8 methods and deeper nestings over a SpyKinematics event log; LinearAxis/Gantry via hook constructors",
          "Exploration: 8e4 / 4e6 value cases over stacks of depth 1..3 in any order, 4e4 / 1e6 delegation cases (8 methods each), 2e4 / 5e5 LinearAxis/Gantry cases.",
          "Trusted base: refmodel matrices, SpyKinematics (forwards calls unchanged). 5-DOF variants judged only with axial tools, as the statement presupposes.",
          "DESIGN.md section 5, C09"),
 "C15": E("runtime oracle: Jacobian reconstructed through torques_from_vector(e_k) and compared with the geometric Jacobian of the reference chain (x base, tool lever arm, parallelogram coupling matrix); velocity/torque identities; harness-side SVD for conditioning",
          "Exploration: 6e4 / 3e6 robot x stack x q x epsilon cases, 36 matrix entries each, incl. joint vectors within the differencing step of a joint limit.",
          "Trusted base: refmodel::geometric_jacobian; tolerance 5*eps*(1+reach)+4e-15*(1+reach)/eps.",
          "DESIGN.md section 5, C15"),
 "C16": E("value oracle (reference chain at the coupled joint vector, sequential application for stacked couplings, every inverse answer mapped back) plus SpyKinematics delegation matrix for Parallelogram",
          "Exploration: 9e4 / 4e6 value cases (all 30 driven/coupled pairs round-robin, chained couplings, nesting with Tool/Base) and 3e4 / 6e5 delegation cases.",
          "Trusted base: refmodel chain, reference stack composition.",
          "DESIGN.md section 5, C16"),
 "C17": E("runtime oracle on Frame::frame / translation / forward_transformed: exact rigid images, floating-point and exactly collinear triples, distance perturbations around the 5 mm tolerance; error types and flags inspected",
          "Exploration: 1.5e5 / 6e6 rigid, 6e4 / 2e6 collinear, 6e4 / 2e6 congruence, 4e4 / 2e6 forward_transformed cases.",
          "Trusted base: refmodel matrices. sin(angle) in [1e-12,1e-6] is a grey zone where either outcome is accepted.",
          "DESIGN.md section 5, C17"),
})

CHECKS.update({
 "C19": E("runtime oracle: to_yaml -> file -> from_yaml_file round trip, harness-written syntax variants of the documented format with known expected values, and seeded file mutators under catch_unwind for the no-panic clause",
          "Exploration: 8e3 / 4e5 round trips, 1.2e4 / 6e5 syntax variants, 2e4 / 2e6 malformed files.",
          "Trusted base: the harness's YAML writer; Rust's f64 Display/parse round trip. Files under /verif/target/tmp.",
          "DESIGN.md section 5, C19"),
 "C20": E("runtime oracle: URDF/xacro text generated from OPW values in every supported layout / naming / ordering / nesting variant, extraction compared with the generator; fault injection and seeded mutators under catch_unwind for the error clauses",
          "Exploration: 1.5e4 / 6e5 generated descriptions, 6e3 / 2e5 faulty ones (missing joint, conflicting duplicate, malformed XML/xyz), 1e4 / 1e6 mutants.",
          "Trusted base: the harness's URDF writer. Geometry with c2 = 0 (or a2 = 0 in the c3-on-joint-4 layout) is ambiguous for the extractor's heuristics and is not generated.",
          "DESIGN.md section 5, C20"),
})

CHECKS.update({
 "C10": E("runtime oracle: collision_details / collides / near compared with a brute-force f64 triangle/triangle distance oracle over the property's relevant pair list; schedule stress (rayon pools 1..16 x repeats x injected delays) with the in-repo hook event log checking which pairs were evaluated",
          "Exploration: 6e3 / 4e5 synthetic cells x postures x safety tables (verdicts for ~25 pairs each, plus near() under a second table) and 60 / 2e3 cells x 18 schedules each with event-log checking. Coarse meshes (all triangle edges >= 5 cm) and fine meshes are both generated.",
          "Trusted base: /verif/harness/src/mesh.rs (segment/segment, point/triangle, segment/triangle primitives), refmodel link frames. Ambiguity band 1e-4 m (5e-4 m for fine meshes) around each threshold. One open known finding (parry small-triangle intersections).",
          "DESIGN.md section 5, C10"),
})

CHECKS.update({
 "C11": E("differential runtime oracle: every inverse entry point of KinematicsWithShape (both constructors) compared bit for bit, in order, with an independently built Tool{Base{OPW+limits}} stack filtered by the same robot's collides(); delegation of forward/links/limits/singularity; positioned_robot by pointer identity and f32 poses",
          "Exploration: 4e3 / 2.5e5 cells (base/tool transforms general / rotation-only / translation-only / identity, obstacles placed on IK branches) x four entry points; cases with partial removal and order-sensitive removal are counted.",
          "Trusted base: the same robot's collides() as the definition of 'reported colliding'.",
          "DESIGN.md section 5, C11"),
 "C14": E("runtime oracle: non_colliding_offsets compared, in order, with the twelve single-joint candidates filtered by the limits and by the same robot's full collides(); rayon pools 1..16",
          "Exploration: 8e3 / 4e5 cells x initial/from/to vectors with obstacles placed next to links of offset postures (moved-vs-unmoved, moved-vs-base, tool-vs-unmoved, moved-vs-environment all occur), with/without base and tool, touch and distance tables.",
          "Trusted base: the same robot's full collides(); precondition (collision-free initial vector) enforced by the workload.",
          "DESIGN.md section 5, C14"),
})

CHECKS.update({
 "C12": E("offline history checker over complete planner outputs (flag grammar, pose order, linearity, transition cost, collisions, limits, start) with SpyKinematics inside KinematicsWithShape and in-repo hook events (strategy start, RRT gap closing); schedule stress over rayon pools x injected spy delays",
          "Exploration: 220 / 6e3 plans over synthetic cells with strokes generated from joint-space seeds (free / grazing / blocking obstacles, start = landing solution or other posture, both interpolation settings, recursion depths 0..8) and 12 / 300 deterministic scenarios x 12 schedules each.",
          "Trusted base: reference FK of the cell (base*chain*tool), the same robot's collides(). thread_rng makes RRT parts unrepeatable: plans are re-checked from their recorded output.",
          "DESIGN.md section 5, C12"),
 "C13": E("offline history checker over returned RRT paths plus SpyKinematics log (provenance of every interior node as a collision query; no sampling event after a cancellation raised by the spy at the k-th query)",
          "Exploration: 400 / 1e4 scenes x 4 plans each (free, obstacle on the straight line, goal within one step, tiny budget, narrow limits, goal a full turn away) and 150 / 6e3 scenes x 4 cancellation experiments.",
          "Trusted base: the same robot's collides(); SpyKinematics forwards calls unchanged. Outcomes of the internal RNG are sampled by repetition.",
          "DESIGN.md section 5, C13"),
})

def main():
    props = [json.loads(l) for l in open('/verif/properties.jsonl')]
    hooks_commits = subprocess.run(['git','-C','/repo','log','--format=%H %s'],capture_output=True,text=True).stdout.splitlines()
    hook_shas = [l.split()[0] for l in hooks_commits if ' verif hooks:' in l]
    checks=[]
    na=[]
    for p in props:
        pid=p['id']
        if pid in CHECKS:
            tech, text, note, ref = CHECKS[pid]
            checks.append({
              "property_id": pid,
              "quick_cmd": f"bin/check {pid} quick",
              "thorough_cmd": f"bin/check {pid} thorough",
              "evidence_file": f"/verif/evidence/{pid}.json",
              "replay_cmd_template": "bin/check --replay {path}",
              "engine": "opwmon",
              "level_claimed": {"category": "exploration", "text": text + " Case counts and input classes grew with nine rounds of independently seeded changes (DESIGN.md section 8); the exact numbers of the last run and the full list of input classes, histories and clauses are in the evidence file (work, coverage.counters, rule).", "design_ref": ref},
              "level_note": note,
              "technique": tech,
            })
        else:
            na.append({"property_id": pid, "reason": NOT_YET.get(pid, "monitor for this property is not built yet in this tree (work in progress; runtime monitoring applies, see DESIGN.md section 5)")})
    m = {
      "version": 1,
      "setup_cmd": "cd /verif/harness && CARGO_NET_OFFLINE=true cargo build --release --offline",
      "hooks": {
        "guard": "cargo feature verif_hooks (off by default)",
        "enable": "the harness crate depends on /repo by path with features [allow_filesystem, collisions, stroke_planning, verif_hooks]; every bin/check run rebuilds it from /repo's working tree",
        "baseline_off_cmd": "cd /repo && cargo test --workspace --no-fail-fast --offline",
        "source_commits": hook_shas,
        "add_only": True,
      },
      "engines": [{"name": "opwmon", "path": "/verif/harness", "serves_properties": sorted(CHECKS.keys()),
                   "kind_free_text": "Rust harness: seeded workload generators + independent reference models + runtime monitors/oracles over the real library (runtime monitoring family)"}],
      "checks": checks,
      "not_applicable": na,
      "notes": "All checks are runtime monitors (exploration level). VERIF_SEED selects the workload stream; VERIF_SCALE scales case counts. Exit 2 = harness problem / observed too little (inconclusive), never a verdict.",
    }
    json.dump(m, open('/verif/MANIFEST.json','w'), indent=1)
    print("checks:", len(checks), "not_applicable:", len(na))

main()
