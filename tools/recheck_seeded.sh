#!/bin/bash
# usage: tools/recheck_seeded.sh <glob of seeded ids>  -- re-run the quick check of each seeded change and update our_check in its meta.json
cd /verif
for d in seeded/$1; do
  ID=$(basename $d); PROP=${ID%%-*}
  git -C /repo diff --quiet || { echo "/repo not clean"; exit 2; }
  git -C /repo apply /verif/$d/patch.diff || { echo "$ID: patch does not apply"; continue; }
  out=$(VERIF_EVIDENCE_DIR=/verif/target/try-evidence bin/check $PROP quick 2>&1); code=$?
  git -C /repo checkout -- .
  sigs=$(echo "$out" | grep -E "^  signature=" | head -3 | sed 's/ what=.*//' | tr '\n' ';')
  python3 - "$d/meta.json" "$code" "$sigs" <<'PY'
import json,sys
p,code,sigs=sys.argv[1:4]
m=json.load(open(p)); k=m.setdefault('our_check',{})
if k.get('exit')!=1 and int(code)==1 and 'first_run' not in k:
    k['first_run']={'exit':k.get('exit'),'first_signatures':k.get('first_signatures')}
k['exit']=int(code); k['first_signatures']=sigs
json.dump(m,open(p,'w'),indent=1)
PY
  echo "$ID exit=$code $sigs" | cut -c1-160
done
