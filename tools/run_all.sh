#!/bin/sh
# usage: tools/run_all.sh <quick|thorough> [seed]   runs every claimed check once, prints a table
tier=${1:-quick}
export VERIF_SEED=${2:-1}
cd /verif
for id in $(python3 -c "import json;print(' '.join(c['property_id'] for c in json.load(open('MANIFEST.json'))['checks']))"); do
  start=$(date +%s)
  out=$(bin/check $id $tier 2>&1)
  code=$?
  end=$(date +%s)
  echo "$id exit=$code $((end-start))s $(echo "$out" | grep -c '^VIOLATION') violation-lines $(echo "$out" | grep -c '^KNOWN-FINDING') known"
  echo "$out" | grep -E "^VIOLATION|^  signature|HARNESS" | head -5
done
