#!/usr/bin/env python3
"""Generates /verif/SENSITIVITY.md from /verif/seeded/*/meta.json"""
import json,glob,os
rows=[]
for d in sorted(glob.glob('/verif/seeded/*')):
    m=os.path.join(d,'meta.json')
    if not os.path.exists(m): continue
    j=json.load(open(m))
    c=j.get('confirmed_by_us',{}); k=j.get('our_check',{})
    ok_clean='ok' in (c.get('demo_on_unchanged_tree') or '') and 'FAILED' not in (c.get('demo_on_unchanged_tree') or '')
    ok_suite='66 passed' in (c.get('existing_suite_with_change') or '')
    ok_mut='FAILED' in (c.get('demo_with_change') or '')
    caught = k.get('exit')==1
    neutral = j.get('neutralised_by_fix')
    rows.append((os.path.basename(d), j.get('property'), (j.get('summary') or '').replace('\n',' ')[:160], (j.get('needs_to_manifest') or '').replace('\n',' ')[:200],
                 'yes' if (ok_clean and ok_suite and ok_mut) else 'NO (%s/%s/%s)'%(ok_clean,ok_suite,ok_mut), ('no longer breaks the property (fix %s)'%neutral) if neutral else ('CAUGHT' if caught else 'missed (exit %s)'%k.get('exit')), (k.get('first_signatures') or '').replace('signature=','').strip()[:140], j.get('notes','')))
out=["# Sensitivity: independently seeded breaking changes versus the checks","",
"Each change was written by a sub-agent that saw only the property text and its own scratch worktree; it compiles, passes the 66 existing tests, and its demonstration fails with the change and passes without it (column *confirmed*, re-run by `tools/confirm_mutant.sh`). *check* = result of the property's quick check with the change applied to /repo.","",
"| id | property | change | needs to manifest | confirmed | check | first signatures | notes |","|---|---|---|---|---|---|---|---|"]
for r in rows: out.append("| "+" | ".join(str(x) for x in r)+" |")
caught=sum(1 for r in rows if r[5]=='CAUGHT')
live=[r for r in rows if not r[5].startswith('no longer')]
out += ["", "%d of %d seeded changes are caught by the quick tier of their property (%d further stored change(s) stopped breaking their property when a later fix: commit repaired the code they relied on; see their notes)."%(caught,len(live),len(rows)-len(live)), ""]
open('/verif/SENSITIVITY.md','w').write("\n".join(out))
print("%d/%d caught"%(caught,len(live)))
