#!/bin/bash
# usage: tools/try_mutant.sh <seeded id> [property] [tier]  -- apply the seeded change to /repo, run the check, undo it.
ID=$1; PROP=${2:-${ID%%-*}}; TIER=${3:-quick}
cd /verif
git -C /repo diff --quiet || { echo "/repo working tree is not clean"; exit 2; }
git -C /repo apply /verif/seeded/$ID/patch.diff || exit 2
out=$(VERIF_EVIDENCE_DIR=/verif/target/try-evidence bin/check $PROP $TIER 2>&1); code=$?
git -C /repo checkout -- .
echo "$ID -> $PROP $TIER exit=$code"
echo "$out" | grep -E "^  signature=|HARNESS|inconclusive|minimum" | sed 's/ what=.*//' | head -${LINES_MAX:-6}
