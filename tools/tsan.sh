#!/bin/bash
# usage: tools/tsan.sh <ID> [scale]     auxiliary, NOT a registered check.
# Builds the harness and /repo (with hooks) under ThreadSanitizer (nightly, -Zbuild-std, offline) and runs
# the property's quick workload at a reduced scale. Evidence goes to /verif/target/tsan/evidence, TSan
# reports to /verif/target/tsan/logs. Report blocks are classified by the innermost frames of the two
# racing accesses (tools/tsan_classify.py): crossbeam-deque's fence-ordered buffer is a known TSan
# false positive; anything else is listed. Corroboration for the schedule clauses of C10 / C12 / C14 only.
ID=${1:-C10}; SCALE=${2:-0.05}
export CARGO_NET_OFFLINE=true CARGO_TARGET_DIR=/verif/target/tsan
export RUSTFLAGS="-Zsanitizer=thread -Cunsafe-allow-abi-mismatch=sanitizer"
cd /verif/harness || exit 2
mkdir -p /verif/target/tsan/logs /verif/target/tsan/evidence
rm -f /verif/target/tsan/logs/tsan.*
if ! cargo +nightly build --release --offline -Zbuild-std --target x86_64-unknown-linux-gnu >/verif/target/tsan/build.log 2>&1; then
  echo "TSAN build failed, see /verif/target/tsan/build.log"; tail -5 /verif/target/tsan/build.log; exit 2
fi
TSAN_OPTIONS="halt_on_error=0 log_path=/verif/target/tsan/logs/tsan second_deadlock_stack=1" \
VERIF_EVIDENCE_DIR=/verif/target/tsan/evidence VERIF_SCALE=$SCALE \
  /verif/target/tsan/x86_64-unknown-linux-gnu/release/opwmon check $ID quick
code=$?
echo "TSAN property=$ID monitor_exit=$code (66 = TSan saw at least one report; auxiliary, not a verdict)"
python3 /verif/tools/tsan_classify.py /verif/target/tsan/logs/tsan.
