#!/usr/bin/env python3
"""Classifies ThreadSanitizer report blocks by the inner frames of the two racing accesses.
crossbeam-deque's Chase-Lev buffer and crossbeam-epoch's garbage queue order their plain/volatile
accesses with fences, which TSan does not model: those reports are known false positives and are
counted separately from reports whose racing accesses sit in rs_opw_kinematics, the harness or
anything else (those are listed)."""
import sys,glob,re,collections
blocks=[]
for f in glob.glob(sys.argv[1]+'*'):
    cur=None; stack=None
    for line in open(f,errors='replace'):
        if 'WARNING: ThreadSanitizer' in line:
            cur={'kind':line.strip()[:70],'stacks':[]}; blocks.append(cur); stack=None
        elif cur is not None:
            if re.match(r'\s+(Write|Read|Previous|Atomic)', line):
                stack=[]; cur['stacks'].append(stack)
            elif stack is not None and re.match(r'\s+#\d+ ', line):
                if len(stack)<12: stack.append(line.strip()[:260])
            elif line.strip()=='' :
                stack=None
def crossbeam_internal(stack):
    for fr in stack:
        if 'rs_opw_kinematics::' in fr.split(' /')[0] and 'rayon' not in fr.split(' /')[0][:40] and '<' not in fr.split(' /')[0][:6]:
            return False
        if 'crossbeam_deque' in fr or 'crossbeam_epoch' in fr:
            return True
    return False
known=0; other=collections.Counter()
for b in blocks:
    if b['stacks'] and all(crossbeam_internal(s) for s in b['stacks']):
        known+=1
    else:
        top=[s[0] if s else '?' for s in b['stacks']]
        other[(b['kind'], ' || '.join(t[:110] for t in top))]+=1
print("report_blocks=%d crossbeam_deque/epoch_internal(known TSan false positive: fence based)=%d other=%d"%(len(blocks),known,sum(other.values())))
for (k,t),n in other.most_common(8): print("  other x%d: %s | %s"%(n,k,t))
